------------------------------ MODULE PoolTrace ------------------------------
(* Code -> L2: judge traces recorded from the real pool with the monitor.      *)
(* One TLC run checks a whole batch: the trace index is an initial-state       *)
(* choice, each trace is consumed to its end (the monitor is total), and one   *)
(* verdict line per trace is printed when its last record has been consumed.   *)
EXTENDS Monitor, Json, IOUtils, TLCExt

Traces == JsonDeserialize(IOEnv.TRACE_FILE)

VARIABLES tid, l, g
vars == <<tid, l, g>>

Init == /\ tid \in 1..Len(Traces)
        /\ l = 0
        /\ g = MonInit

Next == /\ l < Len(Traces[tid])
        /\ l' = l + 1
        /\ g' = MonStep(g, Traces[tid][l + 1])
        /\ UNCHANGED tid

Spec == Init /\ [][Next]_vars

Verdict == [tid |-> tid, n |-> l, viol |-> g.viol, hit |-> g.hit]

(* always TRUE; prints the verdict exactly once per trace (each (tid, l) is one state) *)
Report == (l = Len(Traces[tid])) => PrintT("VERDICT" \o ToJson(Verdict))
==============================================================================
