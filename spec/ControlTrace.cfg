SPECIFICATION TSpec
CONSTANTS
  Sess <- TraceSess
  Classes <- TraceClasses
  MaxLines = 0
  Transports <- TraceTransports
INVARIANT Report
CHECK_DEADLOCK FALSE
