----------------------------- MODULE CtlCommands -----------------------------
(* C17: the command lines of the control interface as PROGRAMS, enumerated by TLC from the command table that the   *)
(* check reflects from the pool class (constant Cmds):  command x subset of its options x one value per parameter.  *)
(* Each program is translated (tools/ctlcmds.py) into a concrete line sent to a real session and into the direct    *)
(* method call on a twin pool; Control!CtlMon then checks the reply rule                                            *)
(*        reply = "ok" if the call returned None, else str(result | exception)                                      *)
(* and the equality of both pools' observable state (translation validation, TLC as the program enumerator).        *)
EXTENDS Integers, Sequences, FiniteSets, TLC, Json

CONSTANTS Cmds,        \* <<[name, params |-> <<[name, kind, n]>>]>> ; n = size of the parameter's value domain
          MaxOpts      \* at most this many optional parameters are given in one program

Always(c)   == {i \in 1..Len(c.params) : c.params[i].kind \in {"pos", "varpos"}}
Optional(c) == {i \in 1..Len(c.params) : c.params[i].kind \in {"opt", "flag", "propval"}}
Given(c)    == {Always(c) \cup S : S \in {T \in SUBSET Optional(c) : Cardinality(T) <= MaxOpts}}
MaxN(c)     == IF c.params = <<>> THEN 1 ELSE CHOOSE m \in {c.params[i].n : i \in 1..Len(c.params)} : \A i \in 1..Len(c.params) : c.params[i].n <= m
Choices(c)  == UNION {[D -> 1..MaxN(c)] : D \in Given(c)}
Valid(c, f) == \A i \in DOMAIN f : f[i] <= c.params[i].n
Programs    == UNION {{[cmd |-> k, choice |-> f] : f \in {h \in Choices(Cmds[k]) : Valid(Cmds[k], h)}} : k \in 1..Len(Cmds)}

ASSUME \A p \in Programs : PrintT("PROG" \o ToJson([cmd |-> p.cmd, given |-> [i \in DOMAIN p.choice |-> TRUE],
                                                      choice |-> [i \in 1..Len(Cmds[p.cmd].params) |->
                                                                    IF i \in DOMAIN p.choice THEN p.choice[i] ELSE 0]]))
ASSUME PrintT("NPROGRAMS" \o ToString(Cardinality(Programs)))

VARIABLE x
Init == x = 0
Next == UNCHANGED x
Spec == Init /\ [][Next]_x
=============================================================================
