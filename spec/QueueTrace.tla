----------------------------- MODULE QueueTrace -----------------------------
(* Code -> specification: records of real runs of queue_context.Queue judged by QueueCtx!QMon (batch). *)
EXTENDS QueueCtx, IOUtils, TLCExt

Traces == JsonDeserialize(IOEnv.TRACE_FILE)

VARIABLES tid, l, tg
tvars == <<tid, l, tg, st, g, hist>>

TInit == /\ tid \in 1..Len(Traces)
         /\ l = 0
         /\ tg = MInit
         /\ st = QInit0 /\ g = MInit /\ hist = <<>>

TNext == /\ l < Len(Traces[tid])
         /\ l' = l + 1
         /\ tg' = QMon(tg, Traces[tid][l + 1])
         /\ UNCHANGED <<tid, st, g, hist>>

TSpec == TInit /\ [][TNext]_tvars

Report == (l = Len(Traces[tid])) => PrintT("VERDICT" \o ToJson([tid |-> tid, n |-> l, viol |-> tg.viol, hit |-> tg.hit]))
=============================================================================
