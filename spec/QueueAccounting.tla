--------------------------- MODULE QueueAccounting ---------------------------
(* The counting argument behind C20 for ANY number of items, consumers and joiners, not only the instances TLC        *)
(* enumerates: an abstraction of QueueCtx (asyncio.Queue of CPython 3.12 + __aenter__/__aexit__) over integers.       *)
(* An item that was put is, at any time, exactly one of: still queued, or held by a block that has not exited; the     *)
(* unfinished counter equals their number; the _finished event is set iff that number is zero; nobody waits in join()  *)
(* when it is zero; and no getter keeps waiting while an item is queued unless a woken getter is on its way for it.    *)
(* IndInv is inductive; Apalache discharges  Init => IndInv ,  IndInv /\ Next => IndInv'  and  IndInv => JoinExact.    *)
EXTENDS Integers

VARIABLES
  \* @type: Int;
  queued,     \* items in the queue
  \* @type: Int;
  inblock,    \* consumers inside "async with queue as item" (item taken, block not exited)
  \* @type: Int;
  unf,        \* Queue._unfinished_tasks
  \* @type: Bool;
  fin,        \* Queue._finished.is_set()
  \* @type: Int;
  gwait,      \* consumers waiting in get() (getter future pending)
  \* @type: Int;
  gwoken,     \* consumers whose getter future was resolved by a put and that have not resumed yet
  \* @type: Int;
  jwait       \* callers waiting in join()

Init == queued = 0 /\ inblock = 0 /\ unf = 0 /\ fin = TRUE /\ gwait = 0 /\ gwoken = 0 /\ jwait = 0

(* put_nowait: append, count, clear the event, wake the first pending getter *)
Put == /\ queued' = queued + 1 /\ unf' = unf + 1 /\ fin' = FALSE
       /\ IF gwait > 0 THEN gwait' = gwait - 1 /\ gwoken' = gwoken + 1 ELSE UNCHANGED <<gwait, gwoken>>
       /\ UNCHANGED <<inblock, jwait>>
(* __aenter__ -> get(): "while self.empty(): wait" - a newcomer takes a queued item at once (no FIFO among getters) *)
GetFast == queued > 0 /\ queued' = queued - 1 /\ inblock' = inblock + 1 /\ UNCHANGED <<unf, fin, gwait, gwoken, jwait>>
GetWait == queued = 0 /\ gwait' = gwait + 1 /\ UNCHANGED <<queued, inblock, unf, fin, gwoken, jwait>>
(* a woken getter resumes: takes an item if one is (still) there, else goes round the loop and waits again *)
WokenResume == /\ gwoken > 0 /\ gwoken' = gwoken - 1
               /\ IF queued > 0 THEN queued' = queued - 1 /\ inblock' = inblock + 1 /\ UNCHANGED gwait
                  ELSE gwait' = gwait + 1 /\ UNCHANGED <<queued, inblock>>
               /\ UNCHANGED <<unf, fin, jwait>>
(* a woken getter is cancelled before it resumed: get() passes the wake-up on if an item is there *)
WokenCancelled == /\ gwoken > 0
                  /\ IF queued > 0 /\ gwait > 0 THEN gwait' = gwait - 1 /\ gwoken' = gwoken
                     ELSE gwoken' = gwoken - 1 /\ UNCHANGED gwait
                  /\ UNCHANGED <<queued, inblock, unf, fin, jwait>>
(* a waiting getter is cancelled: it leaves, marking nothing *)
WaitCancelled == gwait > 0 /\ gwait' = gwait - 1 /\ UNCHANGED <<queued, inblock, unf, fin, gwoken, jwait>>
(* __aexit__ (normal exit, exception or cancellation alike): item_processed() = task_done() *)
ExitBlock == /\ inblock > 0 /\ inblock' = inblock - 1 /\ unf' = unf - 1
             /\ IF unf - 1 = 0 THEN fin' = TRUE /\ jwait' = 0 ELSE UNCHANGED <<fin, jwait>>
             /\ UNCHANGED <<queued, gwait, gwoken>>
(* join(): "if self._unfinished_tasks > 0: await self._finished.wait()" *)
JoinWait == unf > 0 /\ ~fin /\ jwait' = jwait + 1 /\ UNCHANGED <<queued, inblock, unf, fin, gwait, gwoken>>
JoinCancelled == jwait > 0 /\ jwait' = jwait - 1 /\ UNCHANGED <<queued, inblock, unf, fin, gwait, gwoken>>

Next == Put \/ GetFast \/ GetWait \/ WokenResume \/ WokenCancelled \/ WaitCancelled \/ ExitBlock \/ JoinWait \/ JoinCancelled

IndInv == /\ queued >= 0 /\ inblock >= 0 /\ unf >= 0 /\ gwait >= 0 /\ gwoken >= 0 /\ jwait >= 0
          /\ unf = queued + inblock          \* every item put and not yet marked is queued or inside a block: marked exactly once
          /\ (fin <=> unf = 0)
          /\ (jwait > 0 => unf > 0)          \* join() is released at the moment nothing is unfinished
          /\ (gwait > 0 => queued <= gwoken) \* no lost wake-up: a getter waits only if every queued item has a woken getter coming
IndInit == /\ queued \in Int /\ inblock \in Int /\ unf \in Int /\ fin \in BOOLEAN /\ gwait \in Int /\ gwoken \in Int /\ jwait \in Int
           /\ IndInv

(* what C20 needs: joiners wait exactly while something is unfinished; task_done() can never be called too often *)
JoinExact == (jwait > 0 => queued + inblock > 0) /\ (inblock > 0 => unf > 0)
=============================================================================
