------------------------------- MODULE Monitor -------------------------------
(***************************************************************************)
(* L2: the properties C01..C15 of asyncio-taskpool as a TOTAL MONITOR over *)
(* what a user of the pool can observe.                                    *)
(*                                                                         *)
(* MonStep(g, e) consumes one observation record e (an event emitted by    *)
(* harness-owned user code, an operation with its result, or "a handle of  *)
(* the event loop has run") and returns the new ghost state.  It never     *)
(* blocks: a failing clause adds [c, at, ent, kf] to g.viol and checking   *)
(* goes on.  Clause names are "<property>.<clause>"; kf names the listed   *)
(* known finding whose signature explains the failure ("" = none).         *)
(*                                                                         *)
(* The same operator is used (a) by PoolTrace.tla on traces recorded from  *)
(* the real pool and (b) by PoolImplMC.tla on the events emitted by the    *)
(* implementation-level specification, so TLC checks  PoolImpl => Monitor  *)
(* for all schedules in bounds with the very definitions that judge the    *)
(* code.                                                                   *)
(*                                                                         *)
(* Every record carries  o = <<num_running, num_cancelled, num_ended,      *)
(* is_full, is_locked, pool_size>>  read through the public properties at  *)
(* the instant of the event, and (when it changed)  al = the ids of the    *)
(* pool's asyncio tasks ('<pool>_Task-<id>') that exist and are not done.  *)
(***************************************************************************)
EXTENDS Integers, Sequences, FiniteSets, TLC

Inf == -1

Has(e, k)    == k \in DOMAIN e
SeqSet(s)    == {s[i] : i \in 1..Len(s)}
Upd(f, k, v) == [x \in (DOMAIN f) \cup {k} |-> IF x = k THEN v ELSE f[x]]
Card(S)      == Cardinality(S)
Min2(a, b)   == IF a <= b THEN a ELSE b
IsPrefixS(s, t) == Len(s) <= Len(t) /\ \A i \in 1..Len(s) : s[i] = t[i]

SpawnKinds == {"apply", "map", "starmap", "doublestarmap", "start"}
MapKinds   == {"map", "starmap", "doublestarmap"}

NoGrp == "<no group>"      \* "the group is not known (yet)" - any string, the empty one included, is a legal group name

NewT(pos) == [r |-> -2, j |-> -1, began |-> FALSE, fin |-> "no", ccb |-> "no", ecb |-> "no",
              owed |-> FALSE, everOwed |-> FALSE, late |-> FALSE, failed |-> FALSE, grp |-> NoGrp, settled |-> FALSE, cpos |-> pos]

NoReq == [acc |-> FALSE, kind |-> "none", num |-> 0, nc |-> 1, gname |-> NoGrp, exp |-> <<>>, calls |-> 0,
          raised |-> 0, pulls |-> 0, stopSeen |-> FALSE, cancelled |-> FALSE, kfE |-> FALSE,
          ecb |-> "none", ccb |-> "none", begunJ |-> {}, pos |-> 0, liveAt |-> 0]

MonInit ==
  [pos |-> 0, cls |-> "", ps |-> "", size |-> Inf, sizeFixed |-> TRUE, implBase |-> Inf, lastSetPos |-> 0,
   endsSinceSet |-> 0, C |-> {}, alive |-> {}, prevAlive |-> {}, T |-> <<>>, R |-> <<>>, liveG |-> {}, Gobs |-> <<>>,
   forgot |-> {}, maybe |-> {}, closed |-> FALSE, H |-> <<>>, lastO |-> <<0, 0, 0, 0, 0, Inf>>,
   lastCall |-> -2, void |-> FALSE, nstart |-> 0, lastStop |-> FALSE, lastIdle |-> TRUE, implSlack |-> 0, inj |-> {}, cbCanc |-> FALSE, extCanc |-> FALSE, gfPos |-> 0, anyExc |-> FALSE,
   viol |-> {}, hit |-> {}]

(* ---- bookkeeping helpers ------------------------------------------------ *)
Chk(c, ent, ok)      == IF ok THEN {} ELSE {<<c, ent, "">>}
ChkK(c, ent, ok, kf) == IF ok THEN {} ELSE {<<c, ent, kf>>}
Hit(c, cond)         == IF cond THEN {c} ELSE {}
Out(g, vs, hs) ==     \* one entry per (clause, entity, finding): the first position at which it failed
  [g EXCEPT !.viol = @ \cup {[c |-> x[1], at |-> g.pos, ent |-> x[2], kf |-> x[3]] :
                              x \in {y \in vs : ~\E w \in g.viol : w.c = y[1] /\ w.ent = y[2] /\ w.kf = y[3]}},
            !.hit  = @ \cup hs]

ReqOf(g, r) == IF r \in DOMAIN g.R THEN g.R[r] ELSE NoReq
HasCcb(g, t) == IF t.r = -2 THEN TRUE ELSE ReqOf(g, t.r).ccb # "none"
HasEcb(g, t) == IF t.r = -2 THEN FALSE ELSE ReqOf(g, t.r).ecb # "none"

(* The registry states a task may legitimately be counted in, given what has been observed of it.
   Deliberately a SET: the property fixes the order of the transitions and where the callbacks sit
   relative to them, not the exact handle in which the pool does its bookkeeping. *)
Allowed(g, id) ==
  LET t == g.T[id] IN
  IF t.settled THEN {"end"}
  ELSE IF t.ecb # "no" THEN {"end"}
  ELSE IF t.ccb = "in" THEN {"canc"}
  ELSE IF t.ccb = "out" THEN {"canc", "end"}
  ELSE IF t.fin = "canc" THEN (IF HasCcb(g, t) THEN {"run", "canc"} ELSE {"run", "canc", "end"})
  ELSE IF t.fin \in {"ret", "exc"} THEN {"run", "end"}
  ELSE IF t.began THEN {"run"}
  ELSE IF t.everOwed \/ g.extCanc THEN {"run", "canc", "end"}
  ELSE {"run"}

Active(g)      == g.C \ g.forgot
Must(g, x)     == Card({id \in Active(g) \ g.maybe : Allowed(g, id) = {x}})
May(g, x)      == Card({id \in Active(g) : x \in Allowed(g, id)})
Live(g)        == {id \in g.C : g.T[id].began /\ g.T[id].fin = "no"}
LiveOf(g, r)   == {id \in Live(g) : g.T[id].r = r}
CbOpen(g)      == {id \in g.C : g.T[id].ccb = "in" \/ g.T[id].ecb = "in"}
DefRunning(g)  == {id \in Active(g) : Allowed(g, id) = {"run"}}
PossRunning(g) == {id \in Active(g) : "run" \in Allowed(g, id)}
OwnerOf(g, name) == {r \in DOMAIN g.R : g.R[r].acc /\ g.R[r].gname = name /\ ~g.R[r].cancelled}
MembersOf(g, name) == {id \in g.C : g.T[id].grp = name
                                    \/ (g.T[id].r \in OwnerOf(g, name) /\ g.T[id].r >= 0)}

(* ---- 1. creation / liveness of the pool's asyncio tasks (C11) ----------------------------------- *)
Pre(g0, e) ==
  LET g   == [g0 EXCEPT !.pos = @ + 1]
      al  == IF Has(e, "al") THEN SeqSet(e.al) ELSE g.alive
      new == al \ g.C
      n   == Card(g.C)
      (* the lock changes hands only through lock(), unlock() and a gather_and_close() (which locks for good) *)
      gacSeen == \E h \in DOMAIN g.H : g.H[h].kind = "gac"
      lkOk == \/ g.void \/ e.o[5] = g.lastO[5]
              \/ (e.e = "op" /\ e.name \in {"lock", "unlock"})
              \/ (e.o[5] = 1 /\ (gacSeen \/ (e.e = "op" /\ e.name = "hstart") \/ e.e = "hbegin"))
      vs  == Chk("C11.dense", -1, new = {} \/ new = n .. (n + Card(new) - 1))
             \cup Chk("C11.reuse", -1, (al \cap g.C) \subseteq g.alive /\ ~Has(e, "dupobj"))
             \cup Chk("C09.lock", -1, lkOk)
      T2  == [id \in (DOMAIN g.T) \cup new |-> IF id \in DOMAIN g.T THEN g.T[id] ELSE NewT(g.pos)]
  IN Out([g EXCEPT !.C = @ \cup new, !.prevAlive = g.alive, !.alive = al, !.T = T2], vs,
         Hit("C11.dense", new # {}) \cup Hit("C11.afterflush", new # {} /\ g.forgot # {})
         \cup Hit("C11.groups", new # {} /\ Card(g.liveG) > 1) \cup Hit("C11.aftercancel", new # {} /\ g.gfPos > 0))

(* ---- 2. group snapshots (C10, C07.forgot) ------------------------------------------------------- *)
GroupObs(g, e) ==
  IF ~Has(e, "G") THEN g ELSE
  LET G    == e.G
      okI  == {i \in 1..Len(G) : G[i].ok}
      ids(i) == SeqSet(G[i].ids)
      v1 == UNION {Chk("C07.forgot", -1, G[i].ok => G[i].g \in g.liveG)
                   \cup Chk("C10.exact", -1, G[i].g \in g.liveG => G[i].ok) : i \in 1..Len(G)}
      v2 == UNION {Chk("C10.exact", -1, ids(i) \subseteq g.C) : i \in okI}
      v3 == UNION {Chk("C10.disjoint", -1, i = k \/ ids(i) \cap ids(k) = {}) : i \in okI, k \in okI}
      (* membership never moves and never shrinks while the group lives *)
      v4 == UNION {IF id \in ids(i) THEN Chk("C10.exact", id, g.T[id].grp = NoGrp \/ g.T[id].grp = G[i].g) ELSE {}
                   : id \in g.C, i \in okI}
      v5 == UNION {Chk("C10.exact", id, g.T[id].grp = G[i].g => id \in ids(i)) : id \in g.C, i \in okI}
      grpOf(id) == LET S == {i \in okI : id \in ids(i)} IN
                   IF S = {} THEN g.T[id].grp ELSE G[CHOOSE i \in S : TRUE].g
      T2 == [id \in DOMAIN g.T |-> [g.T[id] EXCEPT !.grp = IF @ = NoGrp THEN grpOf(id) ELSE @]]
      (* every task is in a group from its creation on (unless a group was cancelled meanwhile) *)
      v6 == UNION {Chk("C10.member", id, T2[id].grp # NoGrp \/ T2[id].cpos <= g.gfPos \/ T2[id].cpos = g.pos)
                   : id \in g.C}
  IN Out([g EXCEPT !.T = T2, !.Gobs = G], v1 \cup v2 \cup v3 \cup v4 \cup v5 \cup v6,
         Hit("C10.exact", okI # {}) \cup Hit("C10.disjoint", Card(okI) > 1))

(* ---- 3. events from harness-owned user code ---------------------------------------------------- *)
OnInit(g, e) ==
  Out([g EXCEPT !.cls = e.cls, !.ps = e.ps, !.size = e.cfgsize, !.implBase = e.cfgsize,
                !.R = IF e.cls = "SimpleTaskPool"
                      THEN (-1 :> [NoReq EXCEPT !.acc = TRUE, !.kind = "simple", !.exp = <<e.sexp>>,
                                                !.ecb = e.secb, !.ccb = e.sccb])
                      ELSE <<>>],
      Chk("C11.pools", -1, Card(SeqSet(e.allps)) = Len(e.allps))
      \* (a SimpleTaskPool constructed with a plain function: the documented error, nothing else)
      \cup Chk("C09.err", -1, (e.cls = "SimpleTaskPool" /\ Has(e, "ctor")) => "NotCoroutineFunction" \in SeqSet(e.ctor)),
      Hit("C11.pools", Len(e.allps) > 1))

OnCall(g, e) ==
  LET q   == ReqOf(g, e.r)
      isMap == q.kind \in MapKinds
      expd == IF isMap THEN (IF e.j + 1 \in 1..Len(q.exp) THEN q.exp[e.j + 1] ELSE "?")
              ELSE (IF Len(q.exp) >= 1 THEN q.exp[1] ELSE "?")
      lkd == e.o[5] = 1
      kfE == q.kind \in {"apply", "simple"} /\ lkd /\ ~e.raised
      vs  == Chk("C09.noeffect", e.r, q.acc)
             \cup Chk("C07.nostart", e.r, ~q.cancelled)
             \cup (IF q.kind = "simple" THEN Chk("C04.calls", e.r, e.j < q.num)
                   ELSE IF isMap THEN Chk("C05.order", e.r, e.j < q.num /\ e.j = q.calls /\ q.pulls = e.j + 1)
                   ELSE Chk("C04.calls", e.r, e.j < q.num /\ e.j = q.calls))
             \cup Chk(IF isMap THEN "C05.order" ELSE "C04.args", e.r, e.got = expd)
      q2  == [q EXCEPT !.calls = @ + 1, !.raised = @ + (IF e.raised THEN 1 ELSE 0), !.kfE = @ \/ kfE]
  IN Out([g EXCEPT !.R = Upd(g.R, e.r, q2), !.inj = IF e.raised THEN @ \cup {"call"} ELSE @,
                   !.lastCall = IF e.raised THEN -2 ELSE e.r],
         vs, Hit("C04.calls", ~isMap) \cup Hit("C05.order", isMap) \cup Hit("C12.call", e.raised)
             \cup Hit("KF-E", kfE))

OnPull(g, e) ==
  LET q  == ReqOf(g, e.r)
      vs == Chk("C09.noeffect", e.r, q.acc)
            \cup Chk("C07.nostart", e.r, ~q.cancelled)
            \cup Chk("C05.order", e.r, ~q.stopSeen /\ e.j = q.pulls /\ (e.stop <=> e.j = q.num))
            \cup Chk("C05.lazy", e.r, e.ng < 0 \/ e.j <= e.ng + q.raised)
      q2 == [q EXCEPT !.pulls = @ + (IF e.stop THEN 0 ELSE 1), !.stopSeen = e.stop]
  IN Out([g EXCEPT !.R = Upd(g.R, e.r, q2)], vs, Hit("C05.lazy", e.j > 0))

OnBegin(g, e) ==
  LET known == e.id \in g.C
      t   == IF known THEN g.T[e.id] ELSE NewT(g.pos)
      q   == ReqOf(g, e.r)
      gexp == IF q.kind = "simple" THEN (IF Len(e.grps) = 1 THEN e.grps[1] ELSE "?") ELSE q.gname
      vs  == Chk("C11.dense", e.id, known)
             \cup Chk("C04.tasks", e.id, ~e.dup /\ ~t.began)
             \cup Chk("C07.nostart", e.id, ~q.cancelled)
             \cup Chk("C09.noeffect", e.id, q.acc)
             \cup (IF q.kind = "simple" THEN {} ELSE Chk("C04.tasks", e.id, e.j \notin q.begunJ /\ e.j < q.calls))
             \cup Chk("C11.name", e.id, e.tn = g.ps \o "_Task-" \o ToString(e.id))
             \cup Chk("C10.member", e.id, e.grps = <<gexp>> /\ (t.grp = NoGrp \/ t.grp = gexp))
      t2  == [t EXCEPT !.began = TRUE, !.r = e.r, !.j = e.j, !.grp = IF @ = NoGrp /\ Len(e.grps) = 1 THEN e.grps[1] ELSE @]
      g2  == [g EXCEPT !.T = Upd(g.T, e.id, t2), !.C = @ \cup {e.id},
                       !.R = Upd(g.R, e.r, [q EXCEPT !.begunJ = @ \cup {e.j}])]
      live2 == Card(Live(g2))
      (* C15: after an assignment no NEW task may begin at or above the limit in force *)
      vlim == IF g.sizeFixed \/ g.size = Inf THEN {}
              ELSE ChkK("C15.limit", e.id, live2 <= g.size,
                        IF g.implBase = Inf \/ live2 <= g.implBase + Card(DOMAIN g.R) THEN "KF-B.set" ELSE "")
  IN Out(g2, vs \cup vlim, Hit("C04.tasks", TRUE) \cup Hit("C10.member", TRUE) \cup Hit("C11.name", TRUE)
                            \cup Hit("C15.limit", ~g.sizeFixed))

OnCanc(g, e) ==
  LET t  == g.T[e.id]
      vs == Chk("C06.other", e.id, t.owed \/ g.extCanc)
            \* ... and if the latest cancelling operation was a stop()/stop_all(): a task outside the returned list was hit
            \cup (IF g.lastStop THEN Chk("C14.others", e.id, t.owed \/ g.extCanc) ELSE {})
  IN Out([g EXCEPT !.T = Upd(g.T, e.id, [t EXCEPT !.owed = FALSE])], vs, Hit("C06.deliver", TRUE))

OnResume(g, e) ==
  Out(g, Chk("C06.deliver", e.id, ~g.T[e.id].owed), {})

OnFin(g, e) ==
  LET t == g.T[e.id]
  IN Out([g EXCEPT !.T = Upd(g.T, e.id, [t EXCEPT !.fin = e.how, !.failed = @ \/ e.how = "exc"]),
                   !.inj = IF e.how = "exc" THEN @ \cup {"w-" \o ToString(e.id)} ELSE @,
                   !.anyExc = @ \/ e.how = "exc"],
         Chk("C03.trans", e.id, t.began /\ t.fin = "no"), Hit("C12.worker", e.how = "exc"))

OnCbIn(g, e, which) ==
  LET known == e.id \in g.C
      t  == IF known THEN g.T[e.id] ELSE NewT(g.pos)
      nameOk == Chk("C11.name", e.id, e.tn = g.ps \o "_Task-" \o ToString(e.id))
      vs == IF which = "ccb"
            THEN Chk("C03.ccb", e.id, known /\ t.ccb = "no" /\ t.ecb = "no"
                                      /\ (t.fin = "canc" \/ (~t.began /\ (t.everOwed \/ g.extCanc))))
            ELSE Chk("C03.ecb", e.id, known /\ t.ecb = "no" /\ (t.fin # "no" \/ ~t.began)
                                      /\ (t.ccb # "in")
                                      /\ ((t.fin = "canc" /\ HasCcb(g, t) /\ t.r # -2) => t.ccb = "out"))
      t2 == IF which = "ccb" THEN [t EXCEPT !.ccb = "in", !.r = IF @ = -2 THEN e.r ELSE @]
                             ELSE [t EXCEPT !.ecb = "in", !.r = IF @ = -2 THEN e.r ELSE @]
  IN Out([g EXCEPT !.T = Upd(g.T, e.id, t2), !.C = @ \cup {e.id}], vs \cup nameOk,
         Hit("C03." \o which, TRUE) \cup Hit("C02.neverstarted", which = "ecb" /\ ~t.began))

OnCbOut(g, e, which) ==
  LET t  == g.T[e.id]
      ok == IF which = "ccb" THEN t.ccb = "in" ELSE t.ecb = "in"
      t1 == IF which = "ccb" THEN [t EXCEPT !.ccb = "out"] ELSE [t EXCEPT !.ecb = "out"]
      t2 == [t1 EXCEPT !.failed = @ \/ e.how = "exc"]
  IN Out([g EXCEPT !.T = Upd(g.T, e.id, t2),
                   !.inj = IF e.how = "exc" THEN @ \cup {which \o "-" \o ToString(e.id)} ELSE @,
                   !.anyExc = @ \/ e.how = "exc",
                   !.cbCanc = @ \/ e.how = "canc"],
         Chk("C03.done", e.id, ok)
         (* a task inside its callbacks is left alone: a callback sees a cancellation only if the user cancelled the awaiting
            flush/gather_and_close, or a cancellation requested for this very task had not been delivered to its worker *)
         \cup Chk(IF which = "ccb" THEN "C03.ccb" ELSE "C03.ecb", e.id, e.how = "canc" => (g.extCanc \/ t.owed \/ t.late)),
         Hit("C12.callback", e.how = "exc"))

ReqComplete(g, r) ==      \* every invocation / element of an accepted request has been turned into a call
  LET q == g.R[r] IN
  q.cancelled \/ (IF q.kind = "start" THEN g.R[-1].calls >= g.R[-1].num \/ (\E x \in DOMAIN g.R : g.R[x].cancelled)
                  ELSE q.calls = q.num /\ (q.kind \in MapKinds => q.stopSeen))
ReqDone(g, r) ==          \* definitely nothing left to do for request r (conservative)
  LET q == g.R[r] IN
  q.cancelled \/ (IF q.kind = "start" THEN Card({id \in g.C : g.T[id].grp = q.gname}) >= q.num
                  ELSE q.calls = q.num /\ (q.kind \in MapKinds => q.stopSeen)
                       /\ Card(q.begunJ) + Card({id \in g.C : ~g.T[id].began /\ g.T[id].grp = q.gname}) >= q.calls - q.raised)
ReqKfE(g, r) == IF g.R[r].kind = "start" THEN g.R[-1].kfE ELSE g.R[r].kfE

(* ---- 4. operations ------------------------------------------------------------------------------ *)
GSame(g, e) == ~Has(e, "G") \/ e.G = g.Gobs           \* group membership as last reported is unchanged
ASame(g, e) == g.alive = g.prevAlive                   \* no pool task was created or finished by this event
SameObs(g, e) == e.o = g.lastO /\ ASame(g, e) /\ GSame(g, e)

SpawnErrors == {"PoolIsLocked", "PoolIsClosed", "NotCoroutineFunction", "InvalidGroupName"}
OnSpawn(g, e) ==
  LET isMap == e.kind \in MapKinds
      lkd   == g.lastO[5] = 1
      causes == (IF lkd THEN {"PoolIsLocked"} ELSE {})
                \cup (IF g.closed THEN {"PoolIsClosed"} ELSE {})
                \cup (IF e.notcoro THEN {"NotCoroutineFunction"} ELSE {})
                \cup (IF isMap /\ e.nc < 1 THEN {"ValueError"} ELSE {})
                \cup (IF e.named /\ e.gname \in g.liveG THEN {"InvalidGroupName"} ELSE {})
      okRes == e.res = "ok"
      v1 == Chk("C09.err", e.r, okRes <=> causes = {})
            \cup Chk("C09.err", e.r, (~okRes /\ causes # {}) => (SeqSet(e.isa) \cap causes # {}))
            \* ... and it is not, at the same time, a documented error for a cause that does not apply
            \cup Chk("C09.err", e.r, (~okRes /\ causes # {}) => (SeqSet(e.isa) \cap SpawnErrors \subseteq causes))
            \cup Chk("C09.noeffect", e.r, ~okRes => SameObs(g, e))
            \* ... and the argument iterable of a rejected request was not touched (neither __iter__ nor __next__)
            \cup Chk("C09.noeffect", e.r, (~okRes /\ Has(e, "iters")) => e.iters = 0)
            \* a request without an explicit name can never collide with a live group
            \cup Chk("C10.names", e.r, (~okRes /\ ~e.named) => "InvalidGroupName" \notin SeqSet(e.isa))
            \* a rejected start() must not even consume a group index: the next accepted one continues the count
            \cup Chk("C09.noeffect", e.r, (okRes /\ e.kind = "start") => e.idx = g.nstart)
            \* once the pool is closed that is what a spawn request is told (a closed pool is always locked as well)
            \cup (IF g.closed /\ ~okRes /\ ~e.notcoro
                  THEN Chk("C08.closed", e.r, "PoolIsClosed" \in SeqSet(e.isa)) \cup Chk("C09.err", e.r, "PoolIsClosed" \in SeqSet(e.isa))
                  ELSE {})
            \cup (IF okRes THEN
                    Chk("C10.names", e.r, e.ret \notin g.liveG)
                    \cup Chk("C10.names", e.r,
                             IF e.named THEN e.ret = e.gname
                             ELSE IF e.kind = "start" THEN e.pre = "start-group-" /\ e.idx >= 0
                             ELSE e.pre = e.kind \o "-" \o e.fn \o "-group-" /\ e.idx >= 0)
                  ELSE {})
      q  == [NoReq EXCEPT !.acc = okRes, !.kind = e.kind, !.num = e.num, !.nc = e.nc, !.gname = IF okRes THEN e.ret ELSE NoGrp,
                          !.exp = e.exp, !.ecb = e.ecb, !.ccb = e.ccb, !.pos = g.pos, !.liveAt = Card(Live(g))]
      R2 == IF e.kind = "start" /\ okRes
            THEN Upd(Upd(g.R, e.r, q), -1, [ReqOf(g, -1) EXCEPT !.num = @ + e.num])
            ELSE Upd(g.R, e.r, q)
  IN Out([g EXCEPT !.R = R2, !.liveG = IF okRes THEN @ \cup {e.ret} ELSE @,
                   !.nstart = IF okRes /\ e.kind = "start" THEN @ + 1 ELSE @], v1,
         Hit("C09.err", causes # {}) \cup Hit("C09.multi", Card(causes) > 1) \cup Hit("C10.names", okRes))

TaskErrors == {"InvalidTaskID", "AlreadyCancelled", "AlreadyEnded"}
ErrClassOf(g, id) ==    \* which errors cancel(id) may raise for this id
  IF id \notin g.C \/ id \in g.forgot THEN {"InvalidTaskID"}
  ELSE (IF id \in g.maybe THEN {"InvalidTaskID"} ELSE {})
       \cup (IF "canc" \in Allowed(g, id) THEN {"AlreadyCancelled"} ELSE {})
       \cup (IF "end" \in Allowed(g, id) THEN {"AlreadyEnded"} ELSE {})

OnCancel(g, e) ==
  LET ids == SeqSet(e.ids)
      definite == \A id \in ids : id \in DefRunning(g) /\ id \notin g.maybe
      possible == \A id \in ids : id \in PossRunning(g)
      offenders == {id \in ids : id \notin DefRunning(g)}
      okRes == e.res = "ok"
      v1 == Chk("C06.err", -1, okRes => possible)
            \cup Chk("C06.err", -1, definite => okRes)
            (* the matching error - and not one that is, at the same time, one of the other two documented errors *)
            \cup Chk("C06.err", -1, ~okRes => \E id \in offenders : /\ SeqSet(e.isa) \cap ErrClassOf(g, id) # {}
                                                                      /\ SeqSet(e.isa) \cap TaskErrors \subseteq ErrClassOf(g, id))
            \cup Chk("C06.allornothing", -1, ~okRes => e.o = g.lastO)
      T2 == IF okRes
            THEN [id \in DOMAIN g.T |-> IF id \in ids /\ g.T[id].fin = "no"
                                         THEN [g.T[id] EXCEPT !.owed = g.T[id].began, !.everOwed = TRUE]
                                         ELSE IF id \in ids THEN [g.T[id] EXCEPT !.late = TRUE]   \* reached it in its last step
                                         ELSE g.T[id]]
            ELSE g.T
  IN Out([g EXCEPT !.T = T2, !.lastStop = FALSE], v1,
         Hit("C06.ok", okRes /\ ids # {}) \cup Hit("C06.err", ~okRes) \cup Hit("C06.multi", Len(e.ids) > 1)
         \cup Hit("C06.flushed", ids \cap (g.forgot \cup g.maybe) # {}) \cup Hit("C06.never", ids \ g.C # {}))

CancelGroups(g, names) ==    \* effect of a successful cancel_group / cancel_all on the ghost
  LET owners == UNION {OwnerOf(g, n) : n \in names}
      members == UNION {MembersOf(g, n) : n \in names}
  IN [g EXCEPT !.R = [r \in DOMAIN g.R |-> IF r \in owners THEN [g.R[r] EXCEPT !.cancelled = TRUE] ELSE g.R[r]],
               !.T = [id \in DOMAIN g.T |-> IF id \in members /\ g.T[id].fin = "no" /\ id \in g.alive
                                             THEN [g.T[id] EXCEPT !.owed = g.T[id].began, !.everOwed = TRUE, !.grp = "~forgotten"]
                                             ELSE IF id \in members
                                             THEN [g.T[id] EXCEPT !.grp = "~forgotten", !.late = @ \/ (id \in g.alive /\ g.T[id].ecb = "no")]
                                             ELSE g.T[id]],
               !.liveG = @ \ names, !.gfPos = g.pos, !.lastStop = FALSE]

OnCancelGroup(g, e) ==
  LET known == e.g \in g.liveG
      okRes == e.res = "ok"
      v1 == Chk("C07.unknown", -1, known <=> okRes)
            \cup Chk("C07.unknown", -1, ~known => ("InvalidGroupName" \in SeqSet(e.isa) /\ e.o = g.lastO /\ GSame(g, e)))
      g2 == IF okRes THEN CancelGroups(g, {e.g}) ELSE g
  IN Out(g2, v1, Hit("C07.group", okRes) \cup Hit("C07.unknown", ~known)
                 \cup Hit("C07.inhandle", okRes /\ e.where # "gap"))

OnCancelAll(g, e) ==
  Out(CancelGroups(g, g.liveG), Chk("C07.all", -1, e.res = "ok"), Hit("C07.all", g.liveG # {}))

OnStop(g, e) ==
  LET D == DefRunning(g) \ g.maybe
      P == PossRunning(g)
      ret == e.ret
      n  == IF e.name = "stop_all" THEN Card(P) ELSE e.n
      desc == \A i \in 1..(Len(ret) - 1) : ret[i] > ret[i + 1]
      rs == SeqSet(ret)
      lo == IF e.name = "stop_all" THEN Card(D) ELSE (IF n <= 0 THEN 0 ELSE Min2(n, Card(D)))
      hi == IF n <= 0 THEN 0 ELSE Min2(n, Card(P))
      noskip == \A d \in D : (rs # {} /\ \E x \in rs : d > x) => d \in rs
      okRes == e.res = "ok"
      v1 == Chk("C14.lifo", -1, okRes /\ desc /\ rs \subseteq P /\ noskip)
            \cup Chk("C14.count", -1, okRes => (Len(ret) >= lo /\ Len(ret) <= hi))
      T2 == IF okRes
            THEN [id \in DOMAIN g.T |-> IF id \in rs /\ g.T[id].fin = "no"
                                         THEN [g.T[id] EXCEPT !.owed = g.T[id].began, !.everOwed = TRUE]
                                         ELSE IF id \in rs THEN [g.T[id] EXCEPT !.late = TRUE]
                                         ELSE g.T[id]]
            ELSE g.T
  IN Out([g EXCEPT !.T = T2, !.lastStop = TRUE], v1,
         Hit("C14.lifo", Len(ret) > 0) \cup Hit("C14.partial", Len(ret) > 0 /\ Len(ret) < Card(P))
         \cup Hit("C14.gaps", \E a \in P, b \in (g.C \ P) : b < a) \cup Hit("C14.nonpos", n <= 0))

OnLockUnlock(g, e) ==
  LET want == IF e.name = "lock" THEN 1 ELSE 0
      o == e.o
      l == g.lastO
      (* lock() issued from inside func, i.e. between the call and the pool's own lock check: signature of KF-E *)
      atCall == e.name = "lock" /\ e.where # "gap" /\ g.lastCall \in DOMAIN g.R
                /\ g.R[g.lastCall].kind \in {"apply", "simple"}
      g0 == IF atCall THEN [g EXCEPT !.R = Upd(g.R, g.lastCall, [g.R[g.lastCall] EXCEPT !.kfE = TRUE])] ELSE g
      (* unlock() while gather_and_close() is pending defeats the closing protocol: outside every property *)
      misuse == e.name = "unlock" /\ \E h \in DOMAIN g.H : g.H[h].kind = "gac" /\ g.H[h].st \in {"created", "begun"}
      g1 == IF misuse THEN [g0 EXCEPT !.void = TRUE] ELSE g0
  IN Out(g1, Chk("C09.lock", -1, e.res = "ok" /\ o[5] = want /\ o[1] = l[1] /\ o[2] = l[2] /\ o[3] = l[3]
                                 /\ o[4] = l[4] /\ o[6] = l[6] /\ ASame(g, e) /\ GSame(g, e)),
         Hit("C09.lock", TRUE) \cup Hit("C09.idem", l[5] = want))

OnSetSize(g, e) ==
  LET inflight == g.alive # {} \/ \E r \in DOMAIN g.R : r >= 0 /\ g.R[r].acc /\ ~ReqDone(g, r)
      busy == g.lastO[1] + g.lastO[2]
  IN IF e.n < 0
     THEN Out(g, Chk("C15.neg", -1, e.res = "ValueError" /\ SameObs(g, e)), Hit("C15.neg", TRUE))
     ELSE Out([g EXCEPT !.size = e.n, !.sizeFixed = @ /\ ~inflight, !.implBase = e.n + busy,
                        \* a slot handed to a spawner that has not resumed yet is invisible here: allow for it later
                        !.implSlack = IF g.lastIdle THEN 0 ELSE Card(DOMAIN g.R),
                        !.lastSetPos = g.pos, !.endsSinceSet = 0],
              Chk("C15.set", -1, e.res = "ok"),
              Hit("C15.set", inflight) \cup Hit("C15.raise", inflight /\ (g.size # Inf /\ e.n > g.size))
              \cup Hit("C15.lower", inflight /\ (g.size = Inf \/ e.n < g.size)))

OnGetIds(g0, e) ==
  LET g == GroupObs(g0, e)
      names == SeqSet(e.names)
      known == names \subseteq g.liveG
      okRes == e.res = "ok"
      owners == UNION {OwnerOf(g, n) : n \in names}
      begunOf == {id \in g.C : g.T[id].began /\ (g.T[id].r \in owners \/ g.T[id].grp \in names)}
      begunAll == {id \in g.C : g.T[id].began}
      rs == SeqSet(e.ret)
  IN Out(g, Chk("C10.unknown", -1, known <=> okRes)
            \cup Chk("C10.unknown", -1, ~known => "InvalidGroupName" \in SeqSet(e.isa))
            \cup Chk("C10.exact", -1, okRes => (rs \subseteq g.C /\ rs \cap begunAll = begunOf
                                               /\ rs = {id \in g.C : g.T[id].grp \in names})),
         Hit("C10.getids", okRes) \cup Hit("C10.unknown", ~known) \cup Hit("C10.union", Card(names) > 1))

OnHStart(g, e) ==
  Out([g EXCEPT !.H = Upd(g.H, e.h, [kind |-> e.kind, re |-> e.re, st |-> "created", overlap |-> FALSE, mustF |-> {},
                                      reqs |-> {}, tasks |-> {}])], {}, {})

OnHCancel(g, e) == Out([g EXCEPT !.extCanc = @ \/ e.res = "ok"], {}, Hit("hcancel", e.res = "ok"))

OnOp(g, e) ==
  CASE e.res = "skip" -> g
    [] e.name = "spawn" -> OnSpawn(g, e)
    [] e.name = "cancel" -> OnCancel(g, e)
    [] e.name = "cancel_group" -> OnCancelGroup(g, e)
    [] e.name = "cancel_all" -> OnCancelAll(g, e)
    [] e.name \in {"stop", "stop_all"} -> OnStop(g, e)
    [] e.name \in {"lock", "unlock"} -> OnLockUnlock(g, e)
    [] e.name = "set_size" -> OnSetSize(g, e)
    [] e.name = "get_ids" -> OnGetIds(g, e)
    [] e.name = "hstart" -> OnHStart(g, e)
    [] e.name = "hcancel" -> OnHCancel(g, e)
    [] OTHER -> g

(* ---- 5. awaited pool methods run as harness tasks ------------------------------------------------ *)
Settled(g) == {id \in g.C : g.T[id].settled}

OnHBegin(g, e) ==
  LET h == g.H[e.h]
      overlap == e.kind = "gac" /\ \E x \in DOMAIN g.H : g.H[x].kind = "gac" /\ g.H[x].st = "begun" IN
  Out([g EXCEPT !.H = Upd([x \in DOMAIN g.H |-> IF overlap /\ g.H[x].kind = "gac" /\ g.H[x].st = "begun"
                                                THEN [g.H[x] EXCEPT !.overlap = TRUE] ELSE g.H[x]],
                          e.h, [h EXCEPT !.st = "begun", !.overlap = overlap, !.mustF = Settled(g) \ g.forgot,
                                               !.reqs = {r \in DOMAIN g.R : g.R[r].acc /\ r >= 0},
                                               !.tasks = g.C])], {}, {})

OnHDone(g, e) ==
  LET h == g.H[e.h]
      okRes == e.res = "ok"
      cancelled == e.res = "cancelled"
      someKfE == \E r \in DOMAIN g.R : g.R[r].kfE
      (* what may legitimately come out of flush / gather_and_close *)
      surfaceOk == okRes \/ cancelled
                   \/ (~h.re /\ e.res = "Boom" /\ e.tok \in g.inj)
                   \/ (~h.re /\ e.res = "CancelledError" /\ (g.cbCanc \/ g.extCanc))
      (* KF-K: a cancellation that reached a task during its own last step (it finished without another suspension):
         asyncio then marks the finished Task as cancelled and a later gather() over it raises CancelledError *)
      someKfK == \E id \in g.C : (g.T[id].owed /\ g.T[id].fin # "no") \/ g.T[id].late
      kfSurf == IF e.res = "PoolIsLocked" /\ someKfE THEN "KF-E"
                ELSE IF e.res = "CancelledError" /\ someKfK THEN "KF-K" ELSE ""
      vSurf == IF h.kind = "until" \/ h.overlap THEN {}     \* (two overlapping gather_and_close calls: not covered by C08)
               ELSE ChkK(IF h.kind = "gac" /\ ~g.anyExc THEN "C08.normal" ELSE "C12.surface", e.h, surfaceOk, kfSurf)
                    \cup (IF h.kind = "flush" /\ h.re THEN ChkK("C13.nothrow", e.h, okRes \/ cancelled, kfSurf) ELSE {})
      (* gather_and_close: returns only when everything requested before the call has finished *)
      vWait == IF h.kind = "gac" /\ okRes
               THEN Chk("C08.wait", e.h, (h.tasks \cap g.alive) = {} /\ Live(g) \cap h.tasks = {})
                    \cup UNION {ChkK("C08.wait", r, ReqComplete(g, r) \/ g.size = 0 \/ g.extCanc,     \* (a cancelled awaiter cancels spawners)
                                     IF ReqKfE(g, r) THEN "KF-E" ELSE "") : r \in h.reqs}
                    \cup UNION {Chk("C08.wait", r, (g.alive \cap {id \in g.C : g.T[id].r = r}) = {}) : r \in h.reqs}
               ELSE {}
      vUntil == IF h.kind = "until" THEN Chk("C08.until", e.h, okRes => g.closed) ELSE {}
      (* C12: the exception of a failed task is what flush()/gather_and_close() raise - it is not swallowed: a call
         without return_exceptions that has awaited a failed task cannot have returned normally *)
      awaited == IF h.kind = "flush" THEN h.mustF \ (g.forgot \cup g.maybe)
                 ELSE IF h.kind = "gac" THEN h.tasks \ (g.forgot \cup g.maybe) ELSE {}
      vRep == IF okRes /\ ~h.re /\ h.kind # "until" /\ ~h.overlap
              THEN UNION {Chk("C12.reported", id, ~g.T[id].failed) : id \in awaited} ELSE {}
      notAlive == g.C \ g.alive
      g2 == IF h.kind = "flush" /\ ~cancelled /\ (okRes \/ TRUE)
            THEN [g EXCEPT !.forgot = IF okRes THEN @ \cup h.mustF ELSE @,
                           !.maybe  = (@ \cup (notAlive \ (g.forgot \cup (IF okRes THEN h.mustF ELSE {})))) ]
            ELSE IF h.kind = "gac" /\ okRes
            THEN [g EXCEPT !.forgot = g.C, !.maybe = {}, !.closed = TRUE,
                           \* tasks alive when the pool closes: either C08.wait was just recorded, or the user
                           \* unlocked the pool while it was closing; nothing further can be concluded
                           !.void = g.alive # {}]
            ELSE IF h.kind = "gac" /\ ~okRes /\ ~cancelled
            THEN [g EXCEPT !.maybe = @ \cup (notAlive \ g.forgot)]
            ELSE g
  IN Out([g2 EXCEPT !.H = Upd(g.H, e.h, [h EXCEPT !.st = "done"])], vSurf \cup vWait \cup vUntil \cup vRep,
         Hit("C08.wait", h.kind = "gac" /\ okRes) \cup Hit("C08.pending", h.kind = "gac" /\ okRes /\ h.tasks # {})
         \cup Hit("C13.forget", h.kind = "flush" /\ okRes /\ h.mustF # {})
         \cup Hit("C13.flush", h.kind = "flush" /\ okRes)
         \cup Hit("C12.surface", e.res = "Boom") \cup Hit("C08.until", h.kind = "until")
         \cup Hit("C12.collect", h.re /\ g.anyExc /\ okRes))

(* ---- 6. probes and the end of a run ---------------------------------------------------------------- *)
OnProbe(g, e) ==
  LET liveBefore == ReqOf(g, e.r).liveAt      \* live workers when the probe request was made
      room == IF g.size = Inf THEN e.k ELSE (IF g.size - liveBefore < 0 THEN 0 ELSE g.size - liveBefore)
      expd == Min2(e.k, room)
  IN Out(g, IF g.sizeFixed /\ e.idle /\ CbOpen(g) = {} /\ ReqOf(g, e.r).acc /\ ~g.void THEN Chk("C02.probe", e.r, e.begun = expd /\ e.live = expd) ELSE {},
         Hit("C02.probe", g.sizeFixed))

OnFinal(g, e) ==
  IF ~(e.drained /\ e.idle) \/ g.void THEN g ELSE
  LET stuck == g.alive
      reqs == {r \in DOMAIN g.R : r >= 0 /\ g.R[r].acc}
      canProgress == g.size # 0 /\ g.sizeFixed /\ ~g.extCanc     \* (cancelling an awaited flush/gather_and_close cancels its children)
      vReq == UNION {
        LET q == g.R[r]
            mine == {id \in g.C : g.T[id].r = r}
            neverBegun == {id \in g.C : ~g.T[id].began /\ g.T[id].grp = q.gname /\ q.gname # NoGrp}
        IN IF q.cancelled \/ ~canProgress \/ g.closed THEN {}
           ELSE IF q.kind = "start"
           THEN (IF g.R[-1].raised = 0
                 THEN ChkK("C04.count", r, Card({id \in g.C : g.T[id].grp = q.gname}) = q.num,
                           IF g.R[-1].kfE THEN "KF-E" ELSE "")
                 ELSE {})
           ELSE ChkK(IF q.kind \in MapKinds THEN "C05.complete" ELSE "C04.count", r,
                     q.calls = q.num /\ (q.kind \in MapKinds => q.stopSeen)
                               /\ Card(q.begunJ) + Card(neverBegun) = q.calls - q.raised,
                     IF q.kfE THEN "KF-E" ELSE "")
        : r \in reqs}
      vSimple == IF g.cls = "SimpleTaskPool" /\ canProgress /\ ~g.closed
                 THEN ChkK("C04.count", -1,
                           g.R[-1].calls - g.R[-1].raised = Card({id \in g.C : g.T[id].grp # NoGrp})
                           \/ (\E r \in reqs : g.R[r].cancelled),
                           IF g.R[-1].kfE THEN "KF-E" ELSE "")
                 ELSE {}
      vTasks == Chk("C02.final", -1, stuck = {})
                \cup UNION {Chk("C03.done", id, g.T[id].ccb # "in" /\ g.T[id].ecb # "in") : id \in g.C}
                \cup UNION {Chk("C02.ecb", id, (HasEcb(g, g.T[id]) /\ id \notin stuck) => g.T[id].ecb = "out") : id \in g.C}
                \cup UNION {Chk("C03.ecb", id, (HasEcb(g, g.T[id]) /\ id \notin stuck) => g.T[id].ecb # "no") : id \in g.C}
                \cup UNION {Chk("C03.ccb", id, (g.T[id].fin = "canc" /\ HasCcb(g, g.T[id]) /\ g.T[id].r # -2
                                                 /\ id \notin stuck) => g.T[id].ccb = "out") : id \in g.C}
      vUntil == UNION {Chk("C08.until", h, (g.H[h].kind = "until" /\ g.H[h].st = "begun") => ~g.closed) : h \in DOMAIN g.H}
  IN Out(g, vReq \cup vSimple \cup vTasks \cup vUntil,
         Hit("final", TRUE) \cup Hit("C04.count", \E r \in reqs : g.R[r].kind \in {"apply", "start"} /\ ~g.R[r].cancelled)
         \cup Hit("C05.complete", \E r \in reqs : g.R[r].kind \in MapKinds /\ ~g.R[r].cancelled)
         \cup Hit("C02.ecb", \E id \in g.C : HasEcb(g, g.T[id]))
         \cup Hit("C07.others", \E r \in reqs : g.R[r].cancelled) )

(* ---- 7. clauses evaluated at every record ---------------------------------------------------------- *)
Post(g, e) ==
  LET o == e.o
      run == o[1]   canc == o[2]   end == o[3]   full == o[4] = 1   szobs == o[6]
      atFlush == e.e = "hdone" /\ e.kind = "flush"
      atClose == e.e = "hdone" /\ e.kind = "gac"
      pfx == IF atFlush THEN "C13" ELSE IF atClose THEN "C08" ELSE "C03"
      keepC == IF atFlush THEN "C13.keep" ELSE IF atClose THEN "C08.closed" ELSE "C03.count"
      forgetC == IF atFlush THEN "C13.forget" ELSE IF atClose THEN "C08.closed" ELSE "C03.count"
      nAct == Card(Active(g))
      nMay == Card(g.maybe \cap Active(g))
      sum == run + canc + end
      idleH == (e.e = "h" /\ e.idle) \/ (e.e = "final" /\ e.idle)
      quiet == idleH /\ CbOpen(g) = {}
      live == Card(Live(g))
      vObs == Chk("C03.count", -1, run >= 0 /\ canc >= 0 /\ end >= 0)
      vCnt == Chk(keepC, -1, run >= Must(g, "run") /\ canc >= Must(g, "canc"))
              \cup Chk(forgetC, -1, run <= May(g, "run") /\ canc <= May(g, "canc") /\ end <= May(g, "end"))
              \cup Chk(keepC, -2, end >= Must(g, "end"))
              \cup Chk(IF sum < nAct - nMay THEN keepC ELSE forgetC, -3, sum >= nAct - nMay /\ sum <= nAct)
      vC01 == IF g.sizeFixed /\ g.size # Inf
              THEN Chk("C01.live", -1, live <= g.size) \cup Chk("C01.reported", -1, run <= g.size)
              ELSE {}
      vFull == IF quiet /\ g.sizeFixed
               THEN Chk("C01.full", -1, full <=> (g.size # Inf /\ run = g.size))
               ELSE {}
      vIdle == IF quiet THEN Chk("C02.idle", -1, run = live /\ canc = 0) ELSE {}
      implFree == IF g.implBase = Inf THEN Inf ELSE g.implBase - (run + canc)
      nReq == Card(DOMAIN g.R)
      (* the known finding explains exactly the implemented free count; slack only while slots may be in transit *)
      vGet == ChkK("C15.get", -1, szobs = g.size,
                   IF g.implBase # Inf /\ (IF quiet THEN szobs <= implFree + g.implSlack /\ szobs >= implFree - g.implSlack
                                            ELSE szobs <= implFree + nReq /\ szobs >= implFree - nReq) THEN "KF-B.get" ELSE "")
      vConc == UNION {IF g.R[r].kind \in MapKinds /\ g.R[r].acc
                      THEN Chk("C05.conc", r, Card(LiveOf(g, r)) <= g.R[r].nc) ELSE {} : r \in DOMAIN g.R}
      (* work conservation at quiet idle points *)
      vWork == IF quiet /\ ~full /\ ~g.closed /\ ~g.extCanc
               THEN UNION {IF g.R[r].kind \in MapKinds /\ g.R[r].acc /\ ~g.R[r].cancelled /\ ~g.R[r].stopSeen
                              /\ g.R[r].calls < g.R[r].num /\ g.sizeFixed
                           THEN Chk("C05.work", r, Card(LiveOf(g, r)) = g.R[r].nc) ELSE {} : r \in DOMAIN g.R}
               ELSE {}
      blocked == {r \in DOMAIN g.R : r >= 0 /\ g.R[r].acc /\ ~g.R[r].cancelled /\ ~g.R[r].kfE
                                      /\ g.R[r].kind \in {"apply"} /\ g.R[r].calls - g.R[r].raised > Card(g.R[r].begunJ)
                                      /\ {id \in g.C : ~g.T[id].began /\ g.T[id].grp = g.R[r].gname} = {}}
      vRaise == IF quiet /\ ~g.sizeFixed /\ g.size # Inf /\ blocked # {} /\ ~g.closed
                THEN ChkK("C15.raise", -1, live >= g.size,
                          \* as implemented, waiters are woken by the next task that ends, unless the free count is used up
                          IF g.endsSinceSet = 0 THEN "KF-B.wake" ELSE IF szobs <= 0 THEN "KF-B.set" ELSE "")
                ELSE {}
      vRoom == IF quiet /\ g.sizeFixed /\ g.size # Inf /\ blocked # {} /\ ~g.closed /\ ~g.extCanc
               THEN Chk("C02.room", -1, live >= g.size) ELSE {}
      T2 == IF idleH THEN [id \in DOMAIN g.T |-> IF id \notin g.alive THEN [g.T[id] EXCEPT !.settled = TRUE] ELSE g.T[id]]
            ELSE g.T
      ends == IF end > g.lastO[3] THEN 1 ELSE 0
      idleNow == IF e.e \in {"h", "final"} THEN e.idle
                 ELSE IF e.e = "op" /\ e.name \in {"lock", "unlock", "get_ids", "set_size"} THEN g.lastIdle ELSE FALSE
  IN IF g.void THEN [g EXCEPT !.lastO = o] ELSE
     Out([g EXCEPT !.lastO = o, !.T = T2, !.endsSinceSet = @ + ends, !.lastIdle = idleNow],
         vObs \cup vCnt \cup vC01 \cup vFull \cup vIdle \cup vGet \cup vConc \cup vWork \cup vRaise \cup vRoom,
         Hit("C01.live", g.sizeFixed /\ g.size # Inf /\ live = g.size /\ live > 0)
         \cup Hit("C01.full", quiet /\ g.sizeFixed /\ full) \cup Hit("C01.notfull", quiet /\ g.sizeFixed /\ ~full)
         \cup Hit("C01.zero", g.size = 0) \cup Hit("C01.inf", g.size = Inf /\ live > 1)
         \cup Hit("C02.idle", quiet /\ live > 0) \cup Hit("C03.canc", canc > 0) \cup Hit("C03.count", nAct > 0)
         \cup Hit("C05.conc", \E r \in DOMAIN g.R : g.R[r].kind \in MapKinds /\ Card(LiveOf(g, r)) = g.R[r].nc)
         \cup Hit("C05.work", quiet /\ ~full /\ \E r \in DOMAIN g.R : g.R[r].kind \in MapKinds /\ g.R[r].acc
                                  /\ ~g.R[r].cancelled /\ g.R[r].calls < g.R[r].num /\ ~g.R[r].stopSeen)
         \cup Hit("C15.get", g.alive # {}) \cup Hit("C02.room", quiet /\ g.sizeFixed /\ blocked # {})
         \cup Hit("C13.maybe", g.maybe # {}))

(* ---- the monitor step ---------------------------------------------------------------------------------- *)
Dispatch(g, e) ==
  CASE e.e = "init"    -> OnInit(g, e)
    [] e.e = "call"    -> OnCall(g, e)
    [] e.e = "pull"    -> OnPull(g, e)
    [] e.e = "begin"   -> OnBegin(g, e)
    [] e.e = "canc"    -> OnCanc(g, e)
    [] e.e = "resume"  -> OnResume(g, e)
    [] e.e = "fin"     -> OnFin(g, e)
    [] e.e = "ccb_in"  -> OnCbIn(g, e, "ccb")
    [] e.e = "ecb_in"  -> OnCbIn(g, e, "ecb")
    [] e.e = "ccb_out" -> OnCbOut(g, e, "ccb")
    [] e.e = "ecb_out" -> OnCbOut(g, e, "ecb")
    [] e.e = "op"      -> OnOp(g, e)
    [] e.e = "hbegin"  -> OnHBegin(g, e)
    [] e.e = "hdone"   -> OnHDone(g, e)
    [] e.e = "probe"   -> OnProbe(g, e)
    [] e.e = "final"   -> OnFinal(g, e)
    [] OTHER           -> g            \* "h", "skip"

(* C12: once a failure was injected (raising worker / call / callback), a lost slot or a starved sibling request is
   also a failure of containment *)
Containment == {"C01.full", "C02.idle", "C02.probe", "C02.room", "C02.final", "C02.ecb", "C04.count", "C05.complete", "C05.work"}
Contain(g) ==
  IF g.inj = {} THEN g
  ELSE [g EXCEPT !.viol = @ \cup {[c |-> "C12.others", at |-> v.at, ent |-> v.ent, kf |-> v.kf] :
                                   v \in {w \in g.viol : w.c \in Containment /\ w.at = g.pos}}]

MonStep(g, e) == Contain(Post(GroupObs(Dispatch(Pre(g, e), e), e), e))

Clauses(p) ==       \* the clause names of each property (used by the model-checking invariants)
  CASE p = "C01" -> {"C01.full", "C01.live", "C01.reported"}
    [] p = "C02" -> {"C02.ecb", "C02.final", "C02.idle", "C02.probe", "C02.room"}
    [] p = "C03" -> {"C03.ccb", "C03.count", "C03.done", "C03.ecb", "C03.trans"}
    [] p = "C04" -> {"C04.args", "C04.calls", "C04.count", "C04.tasks"}
    [] p = "C05" -> {"C05.complete", "C05.conc", "C05.lazy", "C05.order", "C05.work"}
    [] p = "C06" -> {"C06.allornothing", "C06.deliver", "C06.err", "C06.other"}
    [] p = "C07" -> {"C07.all", "C07.forgot", "C07.nostart", "C07.unknown"}
    [] p = "C08" -> {"C08.closed", "C08.normal", "C08.until", "C08.wait"}
    [] p = "C09" -> {"C09.err", "C09.lock", "C09.noeffect"}
    [] p = "C10" -> {"C10.disjoint", "C10.exact", "C10.member", "C10.names", "C10.unknown"}
    [] p = "C11" -> {"C11.dense", "C11.name", "C11.pools", "C11.reuse"}
    [] p = "C12" -> {"C12.surface", "C12.others", "C12.reported"}
    [] p = "C13" -> {"C13.forget", "C13.keep", "C13.nothrow"}
    [] p = "C14" -> {"C14.count", "C14.lifo", "C14.others"}
    [] p = "C15" -> {"C15.get", "C15.limit", "C15.neg", "C15.raise", "C15.set"}
    [] OTHER -> {}
=============================================================================
