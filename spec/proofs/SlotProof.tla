------------------------------ MODULE SlotProof ------------------------------
(* TLAPS proof that SlotAccounting!IndInv is an inductive invariant, for every N \in Nat. *)
EXTENDS SlotAccounting, TLAPS

vars == <<free, held, transit, waiting, live>>
Spec == Init /\ [][Next]_vars

ASSUME NNat == N \in Nat

TypeOK == free \in Int /\ held \in Int /\ transit \in Int /\ waiting \in Int /\ live \in Int
Inv == TypeOK /\ IndInv

LEMMA InitInv == Init => Inv
  BY NNat DEF Init, IndInv, Inv, TypeOK

LEMMA StepInv == Inv /\ [Next]_vars => Inv'
<1> SUFFICES ASSUME Inv, [Next]_vars PROVE Inv'
  OBVIOUS
<1> USE NNat DEF Inv, TypeOK, IndInv
<1>1. CASE AcquireFast  BY <1>1 DEF AcquireFast
<1>2. CASE Wait  BY <1>2 DEF Wait
<1>3. CASE ReleaseHandOff  BY <1>3 DEF ReleaseHandOff
<1>4. CASE ReleaseFree  BY <1>4 DEF ReleaseFree
<1>5. CASE Resume  BY <1>5 DEF Resume
<1>6. CASE GiveBackHandOff  BY <1>6 DEF GiveBackHandOff
<1>7. CASE GiveBackFree  BY <1>7 DEF GiveBackFree
<1>8. CASE CancelWaiting  BY <1>8 DEF CancelWaiting
<1>9. CASE Begin  BY <1>9 DEF Begin
<1>10. CASE Finish  BY <1>10 DEF Finish
<1>11. CASE UNCHANGED vars  BY <1>11 DEF vars
<1> QED  BY <1>1, <1>2, <1>3, <1>4, <1>5, <1>6, <1>7, <1>8, <1>9, <1>10, <1>11 DEF Next

THEOREM Safety == Spec => [](IndInv /\ Capacity)
<1>1. Inv => IndInv /\ Capacity
  BY NNat DEF Inv, TypeOK, IndInv, Capacity
<1>2. Spec => []Inv
  BY InitInv, StepInv, PTL DEF Spec
<1>3. QED
  BY <1>1, <1>2, PTL
=============================================================================
