------------------------------ MODULE QueueProof ------------------------------
(* TLAPS proof that QueueAccounting!IndInv is an inductive invariant (any number of items, consumers, joiners). *)
EXTENDS QueueAccounting, TLAPS

vars == <<queued, inblock, unf, fin, gwait, gwoken, jwait>>
Spec == Init /\ [][Next]_vars

TypeOK == queued \in Int /\ inblock \in Int /\ unf \in Int /\ fin \in BOOLEAN /\ gwait \in Int /\ gwoken \in Int /\ jwait \in Int
Inv == TypeOK /\ IndInv

LEMMA InitInv == Init => Inv
  BY DEF Init, IndInv, Inv, TypeOK

LEMMA StepInv == Inv /\ [Next]_vars => Inv'
<1> SUFFICES ASSUME Inv, [Next]_vars PROVE Inv'
  OBVIOUS
<1> USE DEF Inv, TypeOK, IndInv
<1>1. CASE Put  BY <1>1 DEF Put
<1>2. CASE GetFast  BY <1>2 DEF GetFast
<1>3. CASE GetWait  BY <1>3 DEF GetWait
<1>4. CASE WokenResume  BY <1>4 DEF WokenResume
<1>5. CASE WokenCancelled  BY <1>5 DEF WokenCancelled
<1>6. CASE WaitCancelled  BY <1>6 DEF WaitCancelled
<1>7. CASE ExitBlock  BY <1>7 DEF ExitBlock
<1>8. CASE JoinWait  BY <1>8 DEF JoinWait
<1>9. CASE JoinCancelled  BY <1>9 DEF JoinCancelled
<1>10. CASE UNCHANGED vars  BY <1>10 DEF vars
<1> QED  BY <1>1, <1>2, <1>3, <1>4, <1>5, <1>6, <1>7, <1>8, <1>9, <1>10 DEF Next

THEOREM Safety == Spec => [](IndInv /\ JoinExact)
<1>1. Inv => IndInv /\ JoinExact
  BY DEF Inv, TypeOK, IndInv, JoinExact
<1>2. Spec => []Inv
  BY InitInv, StepInv, PTL DEF Spec
<1>3. QED
  BY <1>1, <1>2, PTL
=============================================================================
