SPECIFICATION TSpec
CONSTANTS
  NC = 4
  NJ = 3
  NI = 4
  MaxOps = 0
INVARIANT Report
CHECK_DEADLOCK FALSE
