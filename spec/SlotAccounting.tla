--------------------------- MODULE SlotAccounting ---------------------------
(* The capacity argument behind C01/C02 for EVERY pool size, not only the sizes TLC enumerates: an abstraction of   *)
(* PoolImpl's semaphore protocol (asyncio.Semaphore of CPython 3.12 as used by _start_task / _task_ending) over      *)
(* integers.  A slot is, at any time, exactly one of: free, held by a task (running or in its cancel callback),      *)
(* or in transit (handed to a spawner that has not resumed yet).  IndInv is inductive; Apalache discharges            *)
(*    IndInit => IndInv   and   IndInv /\ Next => IndInv'                                                             *)
(* for an arbitrary size N >= 0.                                                                                      *)
EXTENDS Integers

CONSTANT
  \* @type: Int;
  N

VARIABLES
  \* @type: Int;
  free,       \* semaphore value
  \* @type: Int;
  held,       \* tasks that hold a slot (registered as running / cancelled)
  \* @type: Int;
  transit,    \* slots handed over to a woken spawner that has not resumed
  \* @type: Int;
  waiting,    \* spawners waiting on the semaphore (pending, not woken)
  \* @type: Int;
  live        \* worker coroutines that have begun and not finished (<= held)

ConstInit == N \in Nat

Init == free = N /\ held = 0 /\ transit = 0 /\ waiting = 0 /\ live = 0

(* _start_task: fast path (not locked(): value > 0 and no waiter that is not cancelled - a waiter that was handed a
   slot but has not resumed yet still counts) *)
AcquireFast == free > 0 /\ waiting = 0 /\ transit = 0
               /\ free' = free - 1 /\ held' = held + 1 /\ UNCHANGED <<transit, waiting, live>>
(* _start_task: must wait (also behind a waiter in transit, even if the value is positive: FIFO fairness) *)
Wait == (free = 0 \/ waiting > 0 \/ transit > 0) /\ waiting' = waiting + 1 /\ UNCHANGED <<free, held, transit, live>>
(* _task_ending: release(); _wake_up_next hands the slot to the first pending waiter *)
ReleaseHandOff == held > 0 /\ waiting > 0 /\ live <= held - 1
                  /\ held' = held - 1 /\ waiting' = waiting - 1 /\ transit' = transit + 1 /\ UNCHANGED <<free, live>>
ReleaseFree == held > 0 /\ waiting = 0 /\ live <= held - 1
               /\ held' = held - 1 /\ free' = free + 1 /\ UNCHANGED <<transit, waiting, live>>
(* the woken spawner resumes and registers its task; acquire() ends with "if value > 0: wake_up_next()" *)
Resume == /\ transit > 0 /\ held' = held + 1 /\ UNCHANGED live
          /\ IF free > 0 /\ waiting > 0
             THEN free' = free - 1 /\ waiting' = waiting - 1 /\ transit' = transit
             ELSE transit' = transit - 1 /\ UNCHANGED <<free, waiting>>
(* the woken spawner was cancelled in the meantime: acquire() gives the slot back (value += 1; wake next) *)
GiveBackHandOff == transit > 0 /\ waiting > 0 /\ waiting' = waiting - 1 /\ UNCHANGED <<free, held, transit, live>>
GiveBackFree == transit > 0 /\ waiting = 0 /\ transit' = transit - 1 /\ free' = free + 1 /\ UNCHANGED <<held, waiting, live>>
(* a waiting spawner is cancelled: it simply leaves *)
CancelWaiting == waiting > 0 /\ waiting' = waiting - 1 /\ UNCHANGED <<free, held, transit, live>>
(* a task takes its first step / its coroutine finishes (it keeps the slot until _task_ending) *)
Begin == live < held /\ live' = live + 1 /\ UNCHANGED <<free, held, transit, waiting>>
Finish == live > 0 /\ live' = live - 1 /\ UNCHANGED <<free, held, transit, waiting>>

Next == AcquireFast \/ Wait \/ ReleaseHandOff \/ ReleaseFree \/ Resume \/ GiveBackHandOff \/ GiveBackFree
        \/ CancelWaiting \/ Begin \/ Finish

(* the inductive invariant *)
IndInv == /\ free >= 0 /\ held >= 0 /\ transit >= 0 /\ waiting >= 0 /\ live >= 0
          /\ free + held + transit = N              \* no slot is ever lost or duplicated
          /\ live <= held                           \* C01: running workers never exceed the slots held ...
          /\ (waiting > 0 => (free = 0 \/ transit > 0))   \* work conservation: nobody waits while a slot is free, except
                                                          \* behind a woken waiter that is about to pass the slot on
IndInit == /\ free \in Int /\ held \in Int /\ transit \in Int /\ waiting \in Int /\ live \in Int
           /\ IndInv

(* what C01 / C02 need *)
Capacity == live <= N /\ held <= N
=============================================================================
