---------------------------- MODULE ControlTrace ----------------------------
(* Code -> specification: records of real control-server runs judged by Control!CtlMon (batch, one verdict each). *)
EXTENDS Control, IOUtils, TLCExt

Traces == JsonDeserialize(IOEnv.TRACE_FILE)
TraceSess == 0..3
TraceClasses == {}
TraceTransports == {"mem"}

VARIABLES tid, l, g
tvars == <<tid, l, g, st, hist>>

TInit == /\ tid \in 1..Len(Traces)
         /\ l = 0
         /\ g = MInit
         /\ st = CInit /\ hist = <<>>

TNext == /\ l < Len(Traces[tid])
         /\ l' = l + 1
         /\ g' = IF IOEnv.TRACE_KIND = "sock" THEN SockMon(g, Traces[tid][l + 1]) ELSE CtlMon(g, Traces[tid][l + 1])
         /\ UNCHANGED <<tid, st, hist>>

TSpec == TInit /\ [][TNext]_tvars

Report == (l = Len(Traces[tid])) => PrintT("VERDICT" \o ToJson([tid |-> tid, n |-> l, viol |-> g.viol, hit |-> g.hit]))
=============================================================================
