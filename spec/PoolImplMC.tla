------------------------------ MODULE PoolImplMC ------------------------------
(***************************************************************************)
(* Model-checking wrapper of PoolImpl: the ENVIRONMENT (the user of the    *)
(* pool) as a nondeterministic process, the monitor of Monitor.tla fed     *)
(* with the observation records PoolImpl emits (so TLC checks              *)
(* PoolImpl => C01..C15 for every environment schedule within the bounds), *)
(* and the history of environment choices with the predicted observation   *)
(* after each one, printed as JSON so that the behaviour can be replayed   *)
(* step by step on the real pool (harness/poolrun.py).                     *)
(***************************************************************************)
EXTENDS PoolImpl, Json

CONSTANTS Outs,        \* outcomes the environment may give a released worker gate: subset of {"ret","exc","again"}
          SizeVals,    \* values the environment may assign to pool_size
          HKinds,      \* awaited methods it may start: subset of {"flush","gac","until"}
          StopVals,    \* arguments of stop(n)
          MaxCancelLen,\* longest id list given to cancel()
          Mode,        \* "bfs" | "sim"
          SimDepth     \* depth bound (levels) of the exploration / of one simulated behaviour

VARIABLES st,      \* the PoolImpl state record
          g,       \* the monitor's ghost state
          hist     \* environment choices so far + predicted observations (not part of the fingerprint)

M == INSTANCE Monitor

vars == <<st, g, hist>>

Pred(s) == [run |-> Len(s.running), canc |-> Len(s.cancelled), end |-> Len(s.ended),
            full |-> IF SemLocked(s) THEN 1 ELSE 0, lk |-> IF s.locked THEN 1 ELSE 0, size |-> s.val,
            nready |-> Len(s.ready), val |-> s.val]

RECURSIVE Feed(_, _, _)
Feed(gh, evs, i) == IF i > Len(evs) THEN gh ELSE Feed(M!MonStep(gh, evs[i]), evs, i + 1)
(* in the model checker the record positions and the hit sets are irrelevant: drop them so that equal
   situations reached along different paths are one state *)
Norm(gh) == [gh EXCEPT !.hit = {}]

InitEv == [e |-> "init", cls |-> Cls, cfgsize |-> Size, ps |-> PoolStr, allps |-> <<PoolStr>>,
           sexp |-> IF Cls = "SimpleTaskPool" THEN "x" ELSE "", secb |-> IF Cls = "SimpleTaskPool" THEN Plan.ecb ELSE "none",
           sccb |-> IF Cls = "SimpleTaskPool" THEN Plan.ccb ELSE "none",
           o |-> Obs(Init0), al |-> <<>>, G |-> <<>>]

Init == /\ st = Init0
        /\ g = Norm(M!MonStep(M!MonInit, InitEv))
        /\ hist = <<>>

(* ---- what the environment may do ---------------------------------------------------------------------- *)
GacPending(s) == \E h \in HTs : s.tk[h].hkind = "gac" /\ s.tk[h].st = "pend"
LiveNames(s) == SeqSetL(s.names)

CancelLists(s) ==     \* id lists for cancel(): issued ids plus one that was never issued
  LET ids == 0 .. (IF s.nstarted < MaxT THEN s.nstarted ELSE MaxT - 1) IN
  {<<a>> : a \in ids} \cup (IF MaxCancelLen >= 2 THEN {<<a, b>> : a \in ids, b \in ids} ELSE {})

GapOps(s) ==
     (IF "spawn" \in OpKinds THEN {[o |-> "spawn", t |-> t] : t \in (1..Len(Tpl)) \ s.usedT} ELSE {})
  \cup (IF "release" \in OpKinds
        THEN {[o |-> "release", id |-> t, out |-> x] :
                t \in {u \in PT : s.tk[u].st = "pend" /\ s.tk[u].wait = "gate" /\ s.tk[u].fst = "pend"}, x \in Outs}
        ELSE {})
  \cup (IF "release_cb" \in OpKinds
        THEN {[o |-> "release_cb", id |-> t, which |-> IF s.tk[t].pc = "ccbgate" THEN "ccb" ELSE "ecb"] :
                t \in {u \in PT : s.tk[u].st = "pend" /\ s.tk[u].wait = "cbg" /\ s.tk[u].fst = "pend"}}
        ELSE {})
  \cup (IF "cancel" \in OpKinds THEN {[o |-> "cancel", ids |-> q] : q \in CancelLists(s)} ELSE {})
  \cup (IF "cancel_group" \in OpKinds
        THEN {[o |-> "cancel_group", g |-> n, r |-> -1] : n \in LiveNames(s) \cup {"nosuch"}} ELSE {})
  \cup (IF "cancel_all" \in OpKinds THEN {[o |-> "cancel_all"]} ELSE {})
  \cup (IF "stop" \in OpKinds /\ Cls = "SimpleTaskPool"
        THEN {[o |-> "stop", n |-> n] : n \in StopVals} \cup {[o |-> "stop_all"]} ELSE {})
  \cup (IF "lock" \in OpKinds THEN {[o |-> "lock"]} \cup (IF GacPending(s) THEN {} ELSE {[o |-> "unlock"]}) ELSE {})
  \cup (IF "set_size" \in OpKinds THEN {[o |-> "set_size", n |-> n] : n \in SizeVals} ELSE {})
  \cup (IF "get_ids" \in OpKinds
        THEN {[o |-> "get_ids", names |-> <<n>>] : n \in LiveNames(s) \cup {"nosuch"}} ELSE {})
  \cup (IF "hcancel" \in OpKinds
        THEN {[o |-> "hcancel", h |-> h] : h \in {x \in 0 .. (NH - 1) : x < s.nh /\ s.tk[HT(x)].st = "pend"}} ELSE {})
  \cup (IF "hstart" \in OpKinds /\ s.nh < NH
        THEN {[o |-> "hstart", kind |-> k, re |-> b] : k \in (HKinds \ (IF GacPending(s) THEN {"gac"} ELSE {})), b \in BOOLEAN}
        ELSE {})

(* operations that make sense inside user code (no gate releases there: the harness could, but nothing new) *)
PointOps(s) == {op \in GapOps(s) : op.o \notin {"release", "release_cb", "hstart", "hcancel", "unlock"}}

(* user-code points that may still be reached *)
Points(s) ==
     (IF "begin" \in ArmKinds THEN {PtName("begin", t, -1) : t \in {u \in PT : s.tk[u].pc = "new" /\ s.tk[u].st # "done"}} ELSE {})
  \cup (IF "fin" \in ArmKinds THEN {PtName("fin", t, -1) : t \in {u \in PT : s.tk[u].fin = "no" /\ s.tk[u].st # "done"}} ELSE {})
  \cup (IF "canc" \in ArmKinds THEN {PtName("canc", t, -1) : t \in {u \in PT : s.tk[u].st = "pend" /\ s.tk[u].pc \in {"gate"}}} ELSE {})
  \cup (IF "ecb" \in ArmKinds THEN {PtName("ecb", t, -1) : t \in {u \in PT : s.tk[u].st # "done"}} ELSE {})
  \cup (IF "ccb" \in ArmKinds THEN {PtName("ccb", t, -1) : t \in {u \in PT : s.tk[u].st # "done"}} ELSE {})
  \cup (IF "call" \in ArmKinds /\ Cls = "TaskPool"
        THEN {PtName("call", r, j) : r \in 0 .. (NReq - 1), j \in 0 .. 2} ELSE {})
  \cup (IF "pull" \in ArmKinds /\ Cls = "TaskPool"
        THEN {PtName("pull", r, j) : r \in 0 .. (NReq - 1), j \in 0 .. 2} ELSE {})

FromSpawnerStack(pt) == \E r \in -1 .. NReq, j \in 0 .. 3 : pt = PtName("call", r, j) \/ pt = PtName("pull", r, j)

Step ==
  /\ Len(st.ready) > 0
  /\ st' = RunHandle([st EXCEPT !.evs = <<>>])
  /\ hist' = hist \o <<[c |-> "step"], [c |-> "end", o |-> Pred(st')]>>

GapOp ==
  /\ st.budget > 0
  /\ \E op \in GapOps(st) :
       /\ st' = DoOp([st EXCEPT !.evs = <<>>, !.budget = @ - 1], op, "gap")
       /\ hist' = hist \o <<[c |-> "op", op |-> op], [c |-> "end", o |-> Pred(st')]>>

Arm ==
  /\ st.budget > 0
  /\ Len(st.armed) = 0
  /\ Len(st.ready) > 0
  /\ \E pt \in Points(st), op \in PointOps(st) :
       /\ ~(op.o \in {"cancel_group", "cancel_all"} /\ FromSpawnerStack(pt))      \* outside C07's quantifier
       /\ st' = [st EXCEPT !.evs = <<>>, !.budget = @ - 1, !.armed = <<[pt |-> pt, op |-> op]>>,
                           !.usedT = IF op.o = "spawn" THEN @ \cup {op.t} ELSE @]     \* the template is spoken for
       /\ hist' = Append(hist, [c |-> "arm", pt |-> pt, op |-> op])

Next == /\ (Step \/ GapOp \/ Arm)
        /\ g' = Norm(Feed(g, st'.evs, 1))

Spec == Init /\ [][Next]_vars

View == <<[st EXCEPT !.evs = <<>>], g>>

(* ---- properties: one invariant per property = no clause of it has failed without a listed finding ------------- *)
OpenKF == {"KF-B.get", "KF-B.set", "KF-B.wake", "KF-E", "KF-K"}
Bad(p) == {v \in g.viol : v.kf \notin OpenKF /\ \E i \in 1..1 : v.c \in M!Clauses(p)}
C01_OK == Bad("C01") = {}
C02_OK == Bad("C02") = {}
C03_OK == Bad("C03") = {}
C04_OK == Bad("C04") = {}
C05_OK == Bad("C05") = {}
C06_OK == Bad("C06") = {}
C07_OK == Bad("C07") = {}
C08_OK == Bad("C08") = {}
C09_OK == Bad("C09") = {}
C10_OK == Bad("C10") = {}
C11_OK == Bad("C11") = {}
C12_OK == Bad("C12") = {}
C13_OK == Bad("C13") = {}
C14_OK == Bad("C14") = {}
C15_OK == Bad("C15") = {}
NoViolation == {v \in g.viol : v.kf \notin OpenKF} = {}

(* plain state invariants of the model itself (cheap sanity / accounting) *)
SlotAccounting ==     \* free + held-by-tasks + handed-off = configured size (while no assignment hit tasks in flight)
  (g.size # Inf /\ g.sizeFixed) =>
     st.val + Len(st.running) + Len(st.cancelled)
     + Cardinality({sp \in SPs : st.tk[sp].st = "pend" /\ st.tk[sp].wait = "sem" /\ st.tk[sp].fst = "res"}) = g.size
(* the same accounting as an instance of the abstract protocol of SlotAccounting.tla, whose invariant Apalache proves
   inductive for every size: PoolImpl's reachable states (in bounds) satisfy it under this mapping *)
SA == INSTANCE SlotAccounting WITH
        N <- Size, free <- st.val,
        held <- Len(st.running) + Len(st.cancelled),
        transit <- Cardinality({sp \in SPs : st.tk[sp].st = "pend" /\ st.tk[sp].wait = "sem" /\ st.tk[sp].fst = "res"}),
        waiting <- Cardinality({sp \in SPs : st.tk[sp].st = "pend" /\ st.tk[sp].wait = "sem" /\ st.tk[sp].fst = "pend"}),
        live <- Cardinality({t \in PT : st.tk[t].st = "pend" /\ st.tk[t].pc = "gate"})
RefinesSlotAccounting == (Size # Inf /\ g.sizeFixed /\ g.size = Size) => SA!IndInv

RegistriesDisjoint ==
  /\ SeqSetL(st.running) \cap SeqSetL(st.cancelled) = {}
  /\ SeqSetL(st.running) \cap SeqSetL(st.ended) = {}
  /\ SeqSetL(st.cancelled) \cap SeqSetL(st.ended) = {}

(* the terminal clauses of the properties (every accepted, uncancelled request made all its invocations, every task ran its
   end callback, nothing is stuck, ...) in every reachable state in which nothing is left to do: the monitor is shown the
   "final" record that the harness would emit there *)
Quiescent(s) == /\ Len(s.ready) = 0
                /\ \A t \in TaskIds : s.tk[t].st # "pend"
FinalEv(s) == [e |-> "final", idle |-> TRUE, drained |-> TRUE, o |-> Obs(s), al |-> <<>>, G |-> GObs(s)]
TerminalOK == Quiescent(st) => {v \in M!MonStep(g, FinalEv(st)).viol : v.kf \notin OpenKF} = {}

(* sanity of the kernel model itself *)
KernelOK ==
  /\ \A i \in 1..Len(st.ready) : st.ready[i].k = "run" => st.tk[st.ready[i].t].st # "none"
  /\ \A i, j \in 1..Len(st.waiters) : i # j => st.waiters[i] # st.waiters[j]
  /\ \A t \in PT : st.tk[t].st = "pend" =>
        (t \in SeqSetL(st.running) \/ t \in SeqSetL(st.cancelled) \/ t \in SeqSetL(st.ended) \/ st.closed)
  /\ \A t \in TaskIds : st.tk[t].st = "done" => st.tk[t].fst = "none"
  /\ st.nstarted = Cardinality({t \in PT : st.tk[t].st # "none"})

(* ---- behaviours for replay on the real pool ------------------------------------------------------------------------ *)
Leaf == Len(st.ready) = 0 /\ (st.budget = 0 \/ (GapOps(st) = {}))
Cfg == [cls |-> Cls, size |-> Size]
PrintLeaf == (Leaf \/ (Mode = "sim" /\ TLCGet("level") >= SimDepth)) => PrintT("SCHED" \o ToJson([hist |-> hist]))
DepthBound == TLCGet("level") <= SimDepth
=============================================================================
