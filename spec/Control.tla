------------------------------- MODULE Control -------------------------------
(***************************************************************************)
(* Specification of the control interface of asyncio-taskpool              *)
(* (control/server.py, control/session.py, control/parser.py):             *)
(*                                                                         *)
(*   server    idle -> serving -> stopping -> stopped                      *)
(*   session   none -> connected -(handshake)-> named -> ... -> gone       *)
(*             one reply per non-blank line, written at once or - for a    *)
(*             command whose method waits - when the wait is over          *)
(*                                                                         *)
(* The transition functions (Do...) are used three times:                  *)
(*  1. by Next: TLC explores every interleaving of clients, lines,         *)
(*     disconnects and the stop within small bounds and checks the         *)
(*     invariants below (C18: reply accounting / isolation, C19: lifecycle)*)
(*  2. by CtlMon: the same functions consume the records of a REAL run     *)
(*     (harness/ctlrun.py: in-memory streams, harness/ctlsock.py: real     *)
(*     sockets + the bundled CLI client) and evaluate the clauses of       *)
(*     C16..C19 on it (total monitor: failing clauses are collected)       *)
(*  3. behaviours of Next, printed as JSON, are the scripts the harnesses  *)
(*     execute.                                                            *)
(***************************************************************************)
EXTENDS Integers, Sequences, FiniteSets, TLC, Json

CONSTANTS Sess,        \* session / client ids
          Classes,     \* line classes the clients may send
          MaxLines,    \* lines per behaviour
          Transports   \* {"mem"} | {"tcp","unix"}

WellFormed == {"query", "mutate", "await", "forever"}
(* "await": a command whose method waits and whose wait ends (flush, gather-and-close);
   "forever": one whose wait does not end within the behaviour (until-closed on a pool that nobody closes) *)
Malformed  == {"unknown", "badarg", "convfail", "help"}

Has(e, k) == k \in DOMAIN e
SeqSet(q) == {q[i] : i \in 1..Len(q)}

(* ---- state ------------------------------------------------------------------------------------ *)
NoSess == [ph |-> "none", inq |-> <<>>, nsent |-> 0, nrep |-> 0, pend |-> "", owed |-> <<>>, named |-> FALSE]

CInit == [srv |-> "idle", task |-> "none", sock |-> FALSE, ss |-> [s \in Sess |-> NoSess], pv |-> 0,
          lines |-> 0, stopped |-> FALSE]

Open(st) == {s \in Sess : st.ss[s].ph \in {"connected", "named", "waiting", "stuck"}}         \* connections the server still holds
Stuck(st) == {s \in Sess : st.ss[s].ph = "stuck"}
(* the clients that are still connected: a session whose client has hung up ("eof" queued) but which has not noticed yet
   - because it is inside a waiting command - is a connection the server holds, not a connected client *)
ClientsConnected(st) == {s \in Open(st) : "eof" \notin SeqSet(st.ss[s].inq)}

(* ---- transition functions ----------------------------------------------------------------------- *)
DoServe(st, tr) == [st EXCEPT !.srv = "serving", !.task = "running", !.sock = (tr = "unix")]

DoConnect(st, s) == [st EXCEPT !.ss[s] = [NoSess EXCEPT !.ph = "connected"]]

DoHandshake(st, s) == [st EXCEPT !.ss[s].ph = "named", !.ss[s].named = TRUE]     \* the session wrote the pool's name

DoSend(st, s, cls) ==       \* the client writes one line
  [st EXCEPT !.ss[s].inq = Append(@, cls), !.lines = @ + 1,
             !.ss[s].nsent = IF cls = "blank" THEN @ ELSE @ + 1]

(* the session consumes its next line: a blank line or EOF ends it; otherwise exactly one reply is owed,
   written in the same step unless the method waits *)
DoRead(st, s) ==
  LET cls == Head(st.ss[s].inq)
      rest == Tail(st.ss[s].inq) IN
  IF cls \in {"blank", "eof"} THEN [st EXCEPT !.ss[s].ph = "gone", !.ss[s].inq = <<>>]
  ELSE IF cls = "await" THEN [st EXCEPT !.ss[s].ph = "waiting", !.ss[s].inq = rest, !.ss[s].pend = cls, !.pv = @ + 1]
  (* AS WRITTEN (finding KF-L): while its method waits the session reads nothing, so it does not notice its client leaving;
     a session inside an endless wait keeps its connection for good *)
  ELSE IF cls = "forever" THEN [st EXCEPT !.ss[s].ph = "stuck", !.ss[s].inq = rest, !.ss[s].pend = cls]
  ELSE [st EXCEPT !.ss[s].inq = rest, !.ss[s].nrep = @ + 1, !.ss[s].owed = Append(@, cls),
                  !.pv = IF cls = "mutate" THEN @ + 1 ELSE @]

DoComplete(st, s) ==      \* the awaited method returned: now the reply is written
  [st EXCEPT !.ss[s].ph = "named", !.ss[s].nrep = @ + 1, !.ss[s].owed = Append(@, st.ss[s].pend), !.ss[s].pend = ""]

DoStop(st) == [st EXCEPT !.srv = "stopping", !.task = "cancelled", !.stopped = TRUE]

(* the serving task completes once no connection is open; the unix socket file goes with it *)
DoDone(st) == [st EXCEPT !.srv = "stopped", !.task = "done", !.sock = FALSE]

(* ---- the model checked by TLC -------------------------------------------------------------------- *)
VARIABLES st, hist
vars == <<st, hist>>

Init == st = CInit /\ hist = <<>>

Serve == st.srv = "idle" /\ \E tr \in Transports : st' = DoServe(st, tr) /\ hist' = Append(hist, [a |-> "serve", tr |-> tr])
Connect == \E s \in Sess : st.srv = "serving" /\ st.ss[s].ph = "none"
              /\ st' = DoConnect(st, s) /\ hist' = Append(hist, [a |-> "connect", s |-> s])
Handshake == \E s \in Sess : st.ss[s].ph = "connected"
              /\ st' = DoHandshake(st, s) /\ hist' = Append(hist, [a |-> "handshake", s |-> s])
Send == \E s \in Sess, c \in Classes : st.ss[s].ph \in {"named", "waiting", "stuck"} /\ st.lines < MaxLines
              /\ "eof" \notin SeqSet(st.ss[s].inq)
              /\ st' = DoSend(st, s, c) /\ hist' = Append(hist, [a |-> "send", s |-> s, cls |-> c])
Eof == \E s \in Sess : st.ss[s].ph \in {"named", "waiting", "stuck"} /\ "eof" \notin SeqSet(st.ss[s].inq)
              /\ st' = [st EXCEPT !.ss[s].inq = Append(@, "eof")] /\ hist' = Append(hist, [a |-> "eof", s |-> s])
Read == \E s \in Sess : st.ss[s].ph = "named" /\ Len(st.ss[s].inq) > 0
              /\ st' = DoRead(st, s) /\ hist' = Append(hist, [a |-> "read", s |-> s])
Complete == \E s \in Sess : st.ss[s].ph = "waiting"
              /\ st' = DoComplete(st, s) /\ hist' = Append(hist, [a |-> "complete", s |-> s])
Stop == st.srv = "serving" /\ st' = DoStop(st) /\ hist' = Append(hist, [a |-> "stop"])
Done == st.srv = "stopping" /\ Open(st) = {} /\ st' = DoDone(st) /\ hist' = Append(hist, [a |-> "done"])

Next == Serve \/ Connect \/ Handshake \/ Send \/ Eof \/ Read \/ Complete \/ Stop \/ Done
Spec == Init /\ [][Next]_vars /\ WF_vars(Read) /\ WF_vars(Complete) /\ WF_vars(Done) /\ WF_vars(Handshake)

View == st

(* C18: every reply belongs to a line of its own session, in order, at most one per non-blank line *)
RepliesAccounted == \A s \in Sess : st.ss[s].nrep <= st.ss[s].nsent /\ Len(st.ss[s].owed) = st.ss[s].nrep
(* C18: when a session has consumed its input and is not waiting, it has answered every non-blank line *)
AllAnswered == \A s \in Sess : (st.ss[s].ph = "named" /\ st.ss[s].inq = <<>>) => st.ss[s].nrep = st.ss[s].nsent
(* C18: malformed lines and help requests never alter the pool  (action property) *)
MalformedNoEffect == [][\A s \in Sess : (st.ss[s].ph = "named" /\ Len(st.ss[s].inq) > 0 /\ Head(st.ss[s].inq) \in Malformed
                                         /\ st'.ss[s].nrep = st.ss[s].nrep + 1 /\ \A o \in Sess \ {s} : st'.ss[o] = st.ss[o])
                                        => st'.pv = st.pv]_vars
(* C19: the task completes only when every connection has gone; then nothing serves and the socket file is gone *)
DoneMeansGone == st.task = "done" => (Open(st) = {} /\ st.srv = "stopped" /\ ~st.sock)
(* C19: a disconnect or stop never touches the pool *)
PoolUntouched == [][(st'.pv # st.pv) => \E s \in Sess : st.ss[s].ph = "named" /\ Len(st.ss[s].inq) > 0
                                                        /\ Head(st.ss[s].inq) \in {"mutate", "await"}]_vars
(* C19 (liveness): once stopped and all clients gone, the serving task completes.  StopCompletesStrict is the property as
   stated; the code as written (and hence this model) violates it exactly when a client has left a session that is
   inside an endless wait (KF-L) - TLC is expected to find that counterexample; StopCompletes is what holds otherwise. *)
StopCompletesStrict == (st.stopped /\ ClientsConnected(st) = {}) ~> (st.task = "done")
StopCompletes == (st.stopped /\ ClientsConnected(st) = {} /\ Stuck(st) = {}) ~> (st.task = "done" \/ Stuck(st) # {})

Leaf == st.lines = MaxLines \/ st.task = "done"
PrintLeaf == Leaf => PrintT("SCRIPT" \o ToJson([hist |-> hist]))
(* a deterministic 1-in-K sample of the behaviours (printing two million of them only to draw 900 costs minutes) *)
ClsCode(c) == CASE c = "query" -> 1 [] c = "mutate" -> 2 [] c = "await" -> 3 [] c = "help" -> 4 [] c = "unknown" -> 5
                [] c = "badarg" -> 6 [] c = "convfail" -> 7 [] c = "blank" -> 8 [] c = "forever" -> 9 [] OTHER -> 10
ActCode(a) == CASE a.a = "serve" -> 1 [] a.a = "connect" -> 2 + a.s [] a.a = "handshake" -> 5 + a.s
                [] a.a = "send" -> 11 + 13 * ClsCode(a.cls) + a.s [] a.a = "eof" -> 160 + a.s [] a.a = "read" -> 170 + a.s
                [] a.a = "complete" -> 180 + a.s [] a.a = "stop" -> 190 [] OTHER -> 191
RECURSIVE HashH(_, _, _)
HashH(h, i, acc) == IF i > Len(h) THEN acc ELSE HashH(h, i + 1, (acc * 31 + ActCode(h[i]) * (i + 7)) % 1000003)
PrintLeafSampled(k) == (Leaf /\ HashH(hist, 1, 17) % k = 0) => PrintT("SCRIPT" \o ToJson([hist |-> hist]))

(***************************************************************************)
(* The monitor over records of real runs.                                  *)
(***************************************************************************)
Chk(c, ent, ok) == IF ok THEN {} ELSE {<<c, ent>>}
Hit(c, cond) == IF cond THEN {c} ELSE {}

MInit == [pos |-> 0, st |-> CInit, ps |-> "", public |-> <<>>,
          q |-> [s \in Sess |-> <<>>],          \* per session: the lines sent and not yet answered (full records)
          nw |-> [s \in Sess |-> 0],            \* writes seen per session
          sentk |-> [s \in Sess |-> 0],
          ended |-> [s \in Sess |-> FALSE],
          viol |-> {}, hit |-> {}]

MOutK(g, vs, hs, kf) ==
  [g EXCEPT !.viol = @ \cup {[c |-> x[1], at |-> g.pos, ent |-> x[2], kf |-> kf] :
                             x \in {y \in vs : ~\E w \in g.viol : w.c = y[1] /\ w.ent = y[2]}},
            !.hit = @ \cup hs]
MOut(g, vs, hs) == MOutK(g, vs, hs, "")

(* C17, the reply rule: "ok" when the call returned None, otherwise the str() of its result or of the exception *)
Expected(twk, text) == IF twk = "none" THEN "ok" ELSE text

OnWrite(g, e) ==
  LET s == e.s
      n == g.nw[s] + 1
      g1 == [g EXCEPT !.nw[s] = n] IN
  IF n = 1
  THEN (* the handshake reply: the pool's name on one line *)
       MOut([g1 EXCEPT !.st = DoHandshake(g.st, s)], Chk("C16.name", s, e.text = g.ps \o "\n"), Hit("C16.name", TRUE))
  ELSE IF Len(g.q[s]) = 0
  THEN MOut(g1, Chk("C18.one", s, FALSE), {})            \* a reply nobody asked for
  ELSE
  LET ln == Head(g.q[s])
      g2 == [g1 EXCEPT !.q[s] = Tail(@)]
      isHelp == ln.cls = "help"
      isMal == ln.cls \in {"unknown", "badarg", "convfail", "nonpublic"}
      vs == Chk("C18.one", s, e.nl)
            \* (the twin performed the call when the line was sent: comparable only if the session was not busy then)
            \cup (IF ln.twinkind = "value" /\ ln.alone THEN Chk("C17.reply", s, e.text = Expected(ln.twk, ln.twin) \o "\n") ELSE {})
            \cup (IF isHelp THEN Chk("C16.help", s, e.usage = ln.cmd /\ e.hashelp) ELSE {})
            \cup (IF isHelp /\ ln.doc # "" THEN Chk("C16.describes", s, e.hasdoc) ELSE {})
            \cup (IF ln.cls = "nonpublic" THEN Chk("C16.nonpublic", s, e.invalid) ELSE {})
            \cup (IF (isHelp \/ isMal) /\ ln.ref # "" THEN Chk("C18.own", s, e.text = ln.ref) ELSE {})
            \* (only if nothing of this session was still in progress when the line was sent)
            \cup (IF (isHelp \/ isMal \/ ln.twinkind = "converr") /\ ln.ser /\ ln.alone THEN Chk("C18.noeffect", s, e.pobs = ln.pobs) ELSE {})
  IN MOut(g2, vs, Hit("C17.reply", ln.twinkind = "value") \cup Hit("C16.help", isHelp) \cup Hit("C18.own", (isHelp \/ isMal) /\ ln.ref # "")
                  \cup Hit("C18.noeffect", isHelp \/ isMal) \cup Hit("C16.nonpublic", ln.cls = "nonpublic")
                  \cup Hit("C18.await", ln.twinkind = "await"))

(* a command whose method waits: its reply, once both the session and the twin's direct call have completed *)
OnACmp(g, e) == MOut(g, Chk("C17.reply", e.s, e.text = Expected(e.twk, e.twin) \o "\n"), Hit("C17.await", TRUE))

OnSend(g, e) ==
  LET s == e.s IN
  IF e.blank THEN [g EXCEPT !.ended[s] = TRUE]
  ELSE [g EXCEPT !.q[s] = Append(@, [alone |-> Len(g.q[s]) = 0] @@ e), !.sentk[s] = @ + 1]

OnIdle(g, e) ==
  (* the loop is idle: every session that is not inside a waiting method has answered all its lines; the
     served pool and the twin pool (driven by direct calls) are in the same observable state *)
  LET waiting(s) == Len(g.q[s]) > 0 /\ (Head(g.q[s]).twinkind = "await" \/ Head(g.q[s]).cls = "await")
                    /\ ~(Head(g.q[s]).twinkind = "await" /\ Head(g.q[s]).twi \in SeqSet(e.twdone) /\ Len(g.q[s]) = 1)
      vs == UNION {IF g.ended[s] \/ waiting(s) THEN {} ELSE Chk("C18.one", s, Len(g.q[s]) = 0) : s \in Sess}
            \cup UNION {Chk("C16.name", s, ~(g.st.ss[s].ph = "connected" /\ g.nw[s] = 0)) : s \in Sess}
            \* a well-formed command whose direct call has returned / raised must have been answered by now
            \cup UNION {IF ~g.ended[s] /\ Len(g.q[s]) > 0 /\ Head(g.q[s]).ser
                           /\ (Head(g.q[s]).twinkind = "value"
                               \/ (Head(g.q[s]).twinkind = "await" /\ Head(g.q[s]).twi \in SeqSet(e.twdone) /\ Len(g.q[s]) = 1))
                        THEN Chk("C17.reply", s, FALSE) ELSE {} : s \in Sess}
            \cup (IF e.tobs # "" /\ \A s \in Sess : Len(g.q[s]) = 0 \/ g.ended[s] THEN Chk("C17.state", -1, e.pobs = e.tobs /\ e.samecalls) ELSE {})
  IN MOut(g, vs, Hit("C18.one", TRUE) \cup Hit("C17.state", e.tobs # ""))

OnSDone(g, e) ==
  MOut([g EXCEPT !.ended[e.s] = TRUE],
       Chk("C18.escape", e.s, e.how # "exc")
       \* the session stays usable: it ends only when it is told to (a blank line, the client hanging up) - not on its own
       \* after some non-blank line, leaving that line unanswered
       \cup Chk("C18.one", e.s, g.ended[e.s] \/ e.how = "exc" \/ Len(g.q[e.s]) = 0)
       \* the session died on a well-formed command instead of answering it with the str() of the exception
       \cup (IF e.how = "exc" /\ Len(g.q[e.s]) > 0 /\ Head(g.q[e.s]).hascall THEN Chk("C17.reply", e.s, FALSE) ELSE {}),
       Hit("C18.escape", TRUE))

OnFinal(g, e) ==
  MOut(g, Chk("C18.quiet", -1, e.stdout = "" /\ e.stderr = "" /\ e.loop_errors = 0)
          (* the reply to a command whose method waits is written when that wait is over - not while the very same call, made
             directly on the twin pool, is still waiting *)
          \cup Chk("C18.await", -1, ~Has(e, "early") \/ Len(e.early) = 0), Hit("C18.quiet", TRUE))

(* ---- records of runs over real sockets (harness/ctlsock.py): C19 ---------------------------------------------- *)
SockMon(g0, e) ==
  LET g == [g0 EXCEPT !.pos = @ + 1]
      stopped == g.st.stopped IN
  CASE e.e = "init" -> [g EXCEPT !.ps = e.ps]
    [] e.e = "served" ->         \* (also a second time, after a completed stop: the server object is started again)
         MOut([g EXCEPT !.st = DoServe([g.st EXCEPT !.stopped = FALSE], e.tr)],
              Chk("C19.serve", -1, e.ok /\ e.prompt /\ e.serving /\ (e.tr = "unix" => e.sock)), Hit("C19.serve", TRUE))
    [] e.e = "connected" ->
         MOut([g EXCEPT !.st = IF Has(e, "hs") /\ ~e.hs THEN DoConnect(g.st, e.s) ELSE DoHandshake(DoConnect(g.st, e.s), e.s),
                        !.sentk[e.s] = 0],
              IF stopped THEN {} ELSE Chk("C19.connect", e.s, e.ok),
              Hit("C19.connect", ~stopped) \cup Hit("C19.cli", e.cli) \cup Hit("C19.concurrent", Cardinality(Open(g.st)) >= 1))
    [] e.e = "reply" ->
         (* a client - raw or the bundled CLI - is served: it gets a reply, and for the concrete lines whose method call
            the harness can make itself, exactly the reply that call gives (the reply rule of C17, now over a real transport) *)
         (* after the stop a session that had been named and was waiting for its next line still answers that one line
            (the code leaves its loop only after it); what the client sends later goes to a closed connection *)
         MOut([g EXCEPT !.sentk[e.s] = IF stopped THEN @ + 1 ELSE @],
                 (IF stopped /\ ~(g.sentk[e.s] = 0 /\ g.st.ss[e.s].ph = "named") THEN {}
                  ELSE Chk("C19.reply", e.s, e.got) \cup Chk("C19.same", e.s, ~e.got \/ e.same))
                 \cup (IF e.cls \in Malformed THEN Chk("C19.pool", e.s, e.pobs = e.before) ELSE {}),
              Hit("C19.reply", ~stopped) \cup Hit("C19.concurrent", Cardinality(Open(g.st)) >= 2))
    [] e.e = "handshook" ->      \* a raw client that had connected without a handshake sends it later (handshakes may overlap)
         MOut([g EXCEPT !.st = IF stopped THEN @ ELSE DoHandshake(@, e.s)],
              IF stopped THEN {} ELSE Chk("C19.connect", e.s, e.ok), Hit("C19.overlap", Cardinality(Open(g.st)) >= 2))
    [] e.e = "sentwait" ->       \* the client sent a command whose wait does not end (until-closed); no reply is awaited
         MOut([g EXCEPT !.st.ss[e.s].ph = "stuck"], {}, Hit("C19.waiting", TRUE))
    [] e.e = "disconnected" ->
         MOut([g EXCEPT !.st.ss[e.s] = IF @.ph = "stuck" THEN [@ EXCEPT !.inq = <<"eof">>] ELSE [@ EXCEPT !.ph = "gone"]],
              Chk("C19.disconnect", e.s, e.pobs = e.before /\ (e.clean \/ stopped)),     \* (after the stop the server may hang up first)
              Hit("C19.disconnect", TRUE) \cup Hit("C19.others", Cardinality(Open(g.st)) >= 2))
    [] e.e = "stop" -> MOut([g EXCEPT !.st = DoStop(g.st)], {}, Hit("C19.stopopen", Len(e.open) > 0))
    [] e.e = "finished" ->
         (* every client has gone and the task was cancelled: it must be done, nothing serves, the socket file is gone *)
         (* known finding KF-L: not completed and a session whose client has left is still inside an endless wait *)
         MOutK([g EXCEPT !.st = DoDone(g.st)],
               Chk("C19.stop", -1, e.done /\ ~e.serving /\ ~e.connect /\ (e.tr = "unix" => ~e.sock)), Hit("C19.stop", TRUE)
                                                                                                       \cup Hit("C19.stuck", Stuck(g.st) # {}),
               IF ~e.done /\ ~e.serving /\ ~e.connect /\ Stuck(g.st) # {} THEN "KF-L" ELSE "")
    [] e.e = "running" ->
         MOut(g, Chk("C19.running", -1, ~e.done /\ e.serving /\ e.connect), Hit("C19.running", TRUE))
    [] e.e = "hung" ->        \* the serving process stopped responding altogether
         MOut(g, Chk("C19.responsive", -1, FALSE), {})
    [] OTHER -> g

CtlMon(g0, e) ==
  LET g == [g0 EXCEPT !.pos = @ + 1] IN
  CASE e.e = "init" -> [g EXCEPT !.ps = e.ps, !.public = e.public]
    [] e.e = "connect" -> [g EXCEPT !.st = DoConnect(DoServe(g.st, "mem"), e.s)]
    [] e.e = "write" -> OnWrite(g, e)
    [] e.e = "send" -> OnSend(g, e)
    [] e.e = "eof" -> [g EXCEPT !.ended[e.s] = TRUE]
    [] e.e = "idle" -> OnIdle(g, e)
    [] e.e = "acmp" -> OnACmp(g, e)
    [] e.e = "sdone" -> OnSDone(g, e)
    [] e.e = "final" -> OnFinal(g, e)
    [] OTHER -> g
=============================================================================
