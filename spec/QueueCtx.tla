------------------------------- MODULE QueueCtx -------------------------------
(***************************************************************************)
(* C20: asyncio_taskpool.queue_context.Queue, "async with queue as item".  *)
(*                                                                         *)
(* Implementation-level model: asyncio.Queue of CPython 3.12 (unbounded;   *)
(* _getters deque with _wakeup_next, _unfinished_tasks, the _finished      *)
(* Event) + the two context-manager methods, on the same kernel model as   *)
(* PoolImpl (FIFO ready queue, one action per handle, Task.cancel with     *)
(* must_cancel).  Consumers run  async with q as item: <await a gate> ;    *)
(* the environment puts items, starts consumers and joiners, releases a    *)
(* body (return / raise) and cancels consumers - while they wait for an    *)
(* item, after an item was handed over but before they resumed, and inside *)
(* the block.                                                              *)
(*                                                                         *)
(* QMon is the property as a total monitor over the observation records    *)
(* that both this model and the harness (harness/queuerun.py) emit.        *)
(***************************************************************************)
EXTENDS Integers, Sequences, FiniteSets, TLC, Json

CONSTANTS NC,       \* consumers
          NJ,       \* joiners
          NI,       \* items
          MaxOps    \* environment operations other than steps

Cons == 0 .. (NC - 1)
JT(j) == 100 + j
Joins == {JT(j) : j \in 0 .. (NJ - 1)}
Tasks == Cons \cup Joins
SeqSetQ(q) == {q[i] : i \in 1..Len(q)}
RemoveQ(q, x) == SelectSeq(q, LAMBDA y : y # x)

NoT == [st |-> "none", pc |-> "new", must |-> FALSE, fst |-> "none", item |-> -1, out |-> "ret", entered |-> FALSE]

QInit0 == [ready |-> <<>>, tk |-> [t \in Tasks |-> NoT], items |-> <<>>, unf |-> 0, fin |-> TRUE,
           getters |-> <<>>, evw |-> <<>>, nput |-> 0, started |-> {}, jstarted |-> 0, budget |-> MaxOps, evs |-> <<>>]

Emit(s, rec) == [s EXCEPT !.evs = Append(@, rec @@ [qsize |-> Len(s.items)])]
CallSoon(s, t) == [s EXCEPT !.ready = Append(@, t)]
FutSet(s, t, how) == IF s.tk[t].fst # "pend" THEN s ELSE CallSoon([s EXCEPT !.tk[t].fst = how], t)
TaskCancel(s, t) ==
  IF s.tk[t].st # "pend" THEN s
  ELSE IF s.tk[t].fst = "pend" THEN FutSet(s, t, "canc")
  ELSE [s EXCEPT !.tk[t].must = TRUE]
Suspend(s, t, pc) ==
  LET s1 == [s EXCEPT !.tk[t].pc = pc, !.tk[t].fst = "pend"] IN
  IF s1.tk[t].must THEN FutSet([s1 EXCEPT !.tk[t].must = FALSE], t, "canc") ELSE s1
Done(s, t) == [s EXCEPT !.tk[t].st = "done", !.tk[t].pc = "done", !.tk[t].fst = "none", !.tk[t].must = FALSE]

(* Queue._wakeup_next(self._getters): pop waiters until one that is not done was woken *)
RECURSIVE WakeGetter(_)
WakeGetter(s) ==
  IF Len(s.getters) = 0 THEN s
  ELSE LET w == Head(s.getters)
           s1 == [s EXCEPT !.getters = Tail(@)]
       IN IF s.tk[w].fst = "pend" THEN FutSet(s1, w, "res") ELSE WakeGetter(s1)

RECURSIVE WakeAllEv(_, _)
WakeAllEv(s, i) == IF i > Len(s.evw) THEN s ELSE WakeAllEv(FutSet(s, s.evw[i], "res"), i + 1)

(* Queue.task_done(), reached through item_processed() in __aexit__ *)
TaskDoneQ(s) ==
  IF s.unf <= 0 THEN [s |-> s, verr |-> TRUE]
  ELSE LET s1 == [s EXCEPT !.unf = @ - 1] IN
       [s |-> IF s1.unf = 0 THEN WakeAllEv([s1 EXCEPT !.fin = TRUE], 1) ELSE s1, verr |-> FALSE]

ExitBlock(s, c, how) ==
  LET r == TaskDoneQ(s) IN
  Done(Emit(r.s, [e |-> "exit", c |-> c, how |-> how, verr |-> r.verr]), c)

(* get(): while self.empty(): wait as a getter ; then get_nowait() and enter the block *)
TryGet(s, c) ==
  IF Len(s.items) = 0 THEN Suspend([s EXCEPT !.getters = Append(@, c)], c, "get")
  ELSE LET it == Head(s.items)
           s1 == [s EXCEPT !.items = Tail(@), !.tk[c].item = it, !.tk[c].entered = TRUE]
       IN Suspend(Emit(s1, [e |-> "enter", c |-> c, item |-> it]), c, "body")

RunConsumer(s0, c) ==
  LET t0 == s0.tk[c]
      throwC == t0.must \/ t0.fst = "canc"
      s == [s0 EXCEPT !.tk[c].must = FALSE, !.tk[c].fst = "none"]
  IN CASE t0.pc = "new" -> IF throwC THEN Done(s, c) ELSE TryGet(s, c)
       [] t0.pc = "get" ->
            IF throwC
            THEN (* except: getter.cancel(); remove it; if an item is there and the getter had been woken, pass it on *)
                 LET s1 == [s EXCEPT !.getters = RemoveQ(@, c)]
                     s2 == IF Len(s1.items) > 0 /\ t0.fst # "canc" THEN WakeGetter(s1) ELSE s1
                 IN Done(Emit(s2, [e |-> "cwait", c |-> c]), c)
            ELSE TryGet(s, c)
       [] t0.pc = "body" ->
            IF throwC THEN ExitBlock(s, c, "canc")
            ELSE ExitBlock(s, c, t0.out)

RunJoiner(s0, j) ==
  LET t0 == s0.tk[j]
      throwC == t0.must \/ t0.fst = "canc"
      s == [s0 EXCEPT !.tk[j].must = FALSE, !.tk[j].fst = "none"]
      jj == j - 100
  IN IF t0.pc = "new"
     THEN LET s1 == Emit(s, [e |-> "jbegin", j |-> jj]) IN
          IF s1.unf > 0 /\ ~s1.fin THEN Suspend([s1 EXCEPT !.evw = Append(@, j)], j, "wait")
          ELSE Done(Emit(s1, [e |-> "jdone", j |-> jj]), j)
     ELSE Done(Emit([s EXCEPT !.evw = RemoveQ(@, j)], [e |-> "jdone", j |-> jj]), j)

RunHandle(s0) ==
  LET t == Head(s0.ready)
      s == [s0 EXCEPT !.ready = Tail(@)]
      s1 == IF s.tk[t].st # "pend" THEN s ELSE IF t \in Cons THEN RunConsumer(s, t) ELSE RunJoiner(s, t)
  IN Emit(s1, [e |-> "h", idle |-> Len(s1.ready) = 0])

DoOp(s, op) ==
  CASE op.o = "put" ->
         LET s1 == [s EXCEPT !.items = Append(@, s.nput), !.nput = @ + 1, !.unf = @ + 1, !.fin = FALSE]
         IN Emit(WakeGetter(s1), [e |-> "put", i |-> s.nput])
    [] op.o = "consume" ->
         Emit(CallSoon([s EXCEPT !.tk[op.c] = [NoT EXCEPT !.st = "pend"], !.started = @ \cup {op.c}], op.c), [e |-> "consume", c |-> op.c])
    [] op.o = "join" ->
         Emit(CallSoon([s EXCEPT !.tk[JT(s.jstarted)] = [NoT EXCEPT !.st = "pend"], !.jstarted = @ + 1], JT(s.jstarted)),
              [e |-> "join", j |-> s.jstarted])
    [] op.o = "release" ->
         Emit(FutSet([s EXCEPT !.tk[op.c].out = op.out], op.c, "res"), [e |-> "release", c |-> op.c, out |-> op.out, eff |-> s.tk[op.c].st = "pend" /\ s.tk[op.c].pc = "body" /\ s.tk[op.c].fst = "pend"])
    [] op.o = "cancel" ->
         Emit(TaskCancel(s, op.c), [e |-> "cancel", c |-> op.c, eff |-> s.tk[op.c].st = "pend"])

(***************************************************************************)
(* The property as a monitor over observation records.                     *)
(***************************************************************************)
MInit == [pos |-> 0, puts |-> 0, exits |-> 0, entered |-> {}, exited |-> {}, taken |-> {},
          jpend |-> {}, jzero |-> {}, rel |-> {}, cnc |-> {}, viol |-> {}, hit |-> {}]
Chk(c, ent, ok) == IF ok THEN {} ELSE {<<c, ent>>}
Hit(c, cond) == IF cond THEN {c} ELSE {}
MOut(g, vs, hs) ==
  [g EXCEPT !.viol = @ \cup {[c |-> x[1], at |-> g.pos, ent |-> x[2], kf |-> ""] : x \in {y \in vs : ~\E w \in g.viol : w.c = y[1] /\ w.ent = y[2]}},
            !.hit = @ \cup hs]
(* whenever nothing is unfinished (every item put so far was taken and its block has exited), pending joins may return *)
Zero(g) == [g EXCEPT !.jzero = IF g.puts = g.exits THEN @ \cup g.jpend ELSE @]

QMonStep(g0, e) ==
  LET g == [g0 EXCEPT !.pos = @ + 1] IN
  CASE e.e = "put" -> Zero([g EXCEPT !.puts = @ + 1])
    [] e.e = "enter" ->
         MOut([g EXCEPT !.entered = @ \cup {e.c}, !.taken = @ \cup {e.item}],
              Chk("C20.item", e.c, e.item \notin g.taken /\ e.item < g.puts /\ e.c \notin g.entered), Hit("C20.enter", TRUE))
    [] e.e = "exit" ->
         (* the block exits - normally, by exception or by cancellation: its item is marked processed exactly once *)
         (* ... and the block exits the way its body ended: __aexit__ neither swallows nor replaces an exception or a
            cancellation (a cancelled consumer stays cancelled), nor invents one *)
         Zero(MOut([g EXCEPT !.exited = @ \cup {e.c}, !.exits = @ + 1],
                   Chk("C20.once", e.c, e.c \in g.entered /\ e.c \notin g.exited /\ ~e.verr)
                   \cup Chk("C20.exitkind", e.c, e.verr \/ e.c >= 50 \/ IF e.how = "canc" THEN e.c \in g.cnc     \* (ids >= 50: the inner one of two nested blocks)
                                                          ELSE e.c \notin g.cnc /\ <<e.c, e.how>> \in g.rel),
                   Hit("C20.once", TRUE) \cup Hit("C20.exc", e.how = "exc") \cup Hit("C20.cancbody", e.how = "canc")))
    [] e.e = "cwait" ->
         MOut(g, Chk("C20.cwait", e.c, e.c \notin g.entered /\ e.c \in g.cnc), Hit("C20.cwait", TRUE))
    [] e.e = "release" -> IF e.eff THEN [g EXCEPT !.rel = @ \cup {<<e.c, e.out>>}] ELSE g
    [] e.e = "cancel" -> IF e.eff THEN [g EXCEPT !.cnc = @ \cup {e.c}] ELSE g
    [] e.e = "jbegin" -> Zero([g EXCEPT !.jpend = @ \cup {e.j}])
    [] e.e = "jdone" ->
         (* join returns only if, at some moment since it was called, nothing was unfinished *)
         MOut([g EXCEPT !.jpend = @ \ {e.j}, !.jzero = @ \ {e.j}], Chk("C20.joinearly", e.j, e.j \in g.jzero), Hit("C20.join", TRUE))
    [] e.e = "h" ->
         (* ... and it does return then: at an idle point no join is still pending although nothing is unfinished *)
         IF e.idle THEN MOut(g, Chk("C20.joinlate", -1, g.puts = g.exits => g.jpend = {}), Hit("C20.joinidle", g.jpend # {}))
         ELSE g
    [] e.e = "final" ->
         (* closing probe: with nothing unfinished one more task_done() must raise ValueError, i.e. nothing was left marked/unmarked *)
         MOut(g, IF g.puts = g.exits THEN Chk("C20.count", -1, e.probe_verr) ELSE Chk("C20.count", -1, ~e.probe_verr), Hit("C20.count", TRUE))
    [] OTHER -> g

(* at every record: an item that was put is either still in the queue or was handed to a block - none is lost on the
   way (e.g. taken out for a consumer that is then cancelled before it entered its block) *)
QMon(g0, e) ==
  LET g == QMonStep(g0, e) IN
  MOut(g, Chk("C20.lost", -1, e.qsize = g.puts - Cardinality(g.taken)), {})

(* ---- the model checked by TLC: environment + monitor + history for replay ------------------------------------------ *)
VARIABLES st, g, hist
vars == <<st, g, hist>>

RECURSIVE Feed(_, _, _)
Feed(gh, evs, i) == IF i > Len(evs) THEN gh ELSE Feed(QMon(gh, evs[i]), evs, i + 1)
Norm(gh) == [gh EXCEPT !.hit = {}, !.pos = 0, !.viol = {[c |-> v.c, at |-> 0, ent |-> v.ent, kf |-> ""] : v \in gh.viol}]
Pred(s) == [qsize |-> Len(s.items), nready |-> Len(s.ready), unf |-> s.unf]

Init == st = QInit0 /\ g = MInit /\ hist = <<>>

Ops(s) ==
     (IF s.nput < NI THEN {[o |-> "put"]} ELSE {})
  \cup {[o |-> "consume", c |-> c] : c \in {x \in Cons : x \notin s.started /\ \A y \in Cons : y < x => y \in s.started}}
  \cup (IF s.jstarted < NJ THEN {[o |-> "join"]} ELSE {})
  \cup {[o |-> "release", c |-> c, out |-> x] : c \in {y \in Cons : s.tk[y].st = "pend" /\ s.tk[y].pc = "body" /\ s.tk[y].fst = "pend"},
                                                 x \in {"ret", "exc"}}
  \cup {[o |-> "cancel", c |-> c] : c \in {y \in Cons : s.tk[y].st = "pend"}}

Step == /\ Len(st.ready) > 0
        /\ st' = RunHandle([st EXCEPT !.evs = <<>>])
        /\ hist' = hist \o <<[c |-> "step"], [c |-> "end", o |-> Pred(st')]>>
EnvOp == /\ st.budget > 0
         /\ \E op \in Ops(st) :
              /\ st' = DoOp([st EXCEPT !.evs = <<>>, !.budget = @ - 1], op)
              /\ hist' = hist \o <<[c |-> "op", op |-> op], [c |-> "end", o |-> Pred(st')]>>
Next == (Step \/ EnvOp) /\ g' = Norm(Feed(g, st'.evs, 1))
Spec == Init /\ [][Next]_vars
View == <<[st EXCEPT !.evs = <<>>], g>>

C20_OK == g.viol = {}
(* the accounting behind the property, on the model's own state *)
Accounting == st.unf = Len(st.items) + Cardinality({c \in Cons : st.tk[c].st = "pend" /\ st.tk[c].pc = "body"})
FinishedFlag == st.fin <=> (st.unf = 0)
(* the reachable states satisfy the invariant that Apalache proves inductive for any number of items/consumers/joiners
   (spec/QueueAccounting.tla), under this refinement mapping *)
QA == INSTANCE QueueAccounting WITH
        queued  <- Len(st.items),
        inblock <- Cardinality({c \in Cons : st.tk[c].st = "pend" /\ st.tk[c].pc = "body"}),
        unf     <- st.unf,
        fin     <- st.fin,
        gwait   <- Cardinality({c \in Cons : st.tk[c].st = "pend" /\ st.tk[c].pc = "get" /\ st.tk[c].fst = "pend"}),
        gwoken  <- Cardinality({c \in Cons : st.tk[c].st = "pend" /\ st.tk[c].pc = "get" /\ st.tk[c].fst = "res"}),
        jwait   <- Cardinality({j \in Joins : st.tk[j].st = "pend" /\ st.tk[j].pc = "wait" /\ st.tk[j].fst = "pend"})
RefinesQueueAccounting == QA!IndInv /\ QA!JoinExact
Leaf == Len(st.ready) = 0 /\ (st.budget = 0 \/ Ops(st) = {})
PrintLeaf == Leaf => PrintT("SCHED" \o ToJson([hist |-> hist]))
=============================================================================
