------------------------------- MODULE PoolImpl -------------------------------
(***************************************************************************)
(* L1: implementation-level specification of asyncio_taskpool.pool on a    *)
(* model of the asyncio kernel of CPython 3.12.                            *)
(*                                                                         *)
(* One TLA+ action per executed event-loop HANDLE (the critical section    *)
(* between two suspension points), evaluated by a small-step interpreter   *)
(* of the pool's coroutines (_task_wrapper/_StartGuard, _start_task,       *)
(* _apply_spawner/_start_num, _arg_consumer, flush, gather_and_close,      *)
(* until_closed) over: a FIFO ready queue, tasks with program counters,    *)
(* futures, Task.cancel() with must_cancel, asyncio.Semaphore (value +     *)
(* FIFO waiters, direct hand-off, give-back on cancellation), gather.      *)
(*                                                                         *)
(* The USER is the environment: between any two handles ("gap") it may     *)
(* perform any public operation, release a worker/callback gate with an    *)
(* outcome, or ARM an operation at a user-code point (first/last statement *)
(* of a worker, where a worker sees CancelledError, inside a sync/async    *)
(* callback, inside func(...), inside the argument iterator's __next__),   *)
(* which then runs in the middle of the handle that reaches that point.    *)
(* Given the environment's choices the specification is deterministic,     *)
(* as asyncio is.                                                          *)
(*                                                                         *)
(* The spec describes what the code DOES, including the recorded open      *)
(* findings: KF-B (pool_size reads/overwrites the semaphore's free count)  *)
(* and KF-E (apply/start spawners re-check the lock).  It emits the same   *)
(* observation records as the harness (harness/poolrun.py), so the         *)
(* monitor (Monitor.tla) judges spec behaviours and real executions alike. *)
(***************************************************************************)
EXTENDS Integers, Sequences, FiniteSets, TLC

CONSTANTS Cls,        \* "TaskPool" | "SimpleTaskPool"
          Size,       \* configured pool size; -1 = unbounded (the default)
          Tpl,        \* sequence of request templates (each used at most once)
          Plan,       \* worker/callback plan of a SimpleTaskPool's fixed function
          MaxOps,     \* budget of environment operations (steps are free)
          NH,         \* harness tasks (flush / gather_and_close / until_closed awaiters)
          OpKinds,    \* operation kinds the environment may use
          ArmKinds,   \* user-code point kinds at which operations may be armed
          MaxReq,     \* 0 = every template is used at most once (model checking); > 0 = bound on requests when a recorded
          MaxTasks    \*     schedule is followed (a template may then be requested several times); likewise for pool tasks

Inf == -1
Dec(v) == IF v = Inf THEN Inf ELSE v - 1
Inc(v) == IF v = Inf THEN Inf ELSE v + 1

SeqSetL(q) == {q[i] : i \in 1..Len(q)}
RemoveFirst(q, x) ==
  IF x \notin SeqSetL(q) THEN q
  ELSE LET i == CHOOSE j \in 1..Len(q) : q[j] = x /\ \A k \in 1..(j - 1) : q[k] # x
       IN SubSeq(q, 1, i - 1) \o SubSeq(q, i + 1, Len(q))
RECURSIVE SortedSeq(_)
SortedSeq(S) == IF S = {} THEN <<>>
                ELSE LET m == CHOOSE x \in S : \A y \in S : x <= y IN <<m>> \o SortedSeq(S \ {m})
RECURSIVE SumNum(_, _)
SumNum(q, i) == IF i > Len(q) THEN 0 ELSE q[i].num + SumNum(q, i + 1)

NReq   == IF MaxReq > 0 THEN MaxReq ELSE Len(Tpl)
MaxT   == IF MaxTasks > 0 THEN MaxTasks ELSE SumNum(Tpl, 1)
PT     == 0 .. (MaxT - 1)                 \* pool task ids (dense, as the pool issues them)
SP(r)  == 100 + r                         \* spawner (meta task) of request r = 0, 1, ...
HT(h)  == 200 + h                         \* harness task h = 0, 1, ...
SPs    == {SP(r) : r \in 0 .. (NReq - 1)}
HTs    == {HT(h) : h \in 0 .. (NH - 1)}
TaskIds == PT \cup SPs \cup HTs
IsPT(t) == t < 100
IsSP(t) == t >= 100 /\ t < 200
RofSP(t) == t - 100
HofHT(t) == t - 200
MapKinds == {"map", "starmap", "doublestarmap"}
PoolStr == Cls \o "-0"
FnName  == "wK"

NoTask == [st |-> "none", pc |-> "new", must |-> FALSE, wait |-> "none", fst |-> "none", dres |-> "none",
           etok |-> "", cbs |-> <<>>, again |-> FALSE, fin |-> "no", pend |-> "none", ptok |-> "", gout |-> "ret",
           r |-> -1, j |-> -1, i |-> 0, acq |-> FALSE,
           hkind |-> "", re |-> FALSE, gch |-> <<>>, gn |-> 0, gcreq |-> FALSE, phase |-> 0, hcanc |-> FALSE]

(* ---- initial state ------------------------------------------------------------------------------- *)
Init0 ==
  [ready |-> <<>>, tk |-> [t \in TaskIds |-> NoTask],
   locked |-> FALSE, closed |-> FALSE, nstarted |-> 0, startCalls |-> 0,
   running |-> <<>>, cancelled |-> <<>>, ended |-> <<>>,
   gorder |-> <<>>, gids |-> <<>>, metaRun |-> <<>>, metaCanc |-> <<>>,
   val |-> Size, waiters |-> <<>>, mval |-> [r \in 0 .. (NReq - 1) |-> 0],
   req |-> [r \in 0 .. (NReq - 1) |-> [t |-> 0, name |-> "", calls |-> 0, pulls |-> 0, acc |-> FALSE]],
   names |-> <<>>, nreq |-> 0, usedT |-> {}, nh |-> 0, scalls |-> 0,
   budget |-> MaxOps, armed |-> <<>>, evs |-> <<>>]

(* ---- observation (what the harness reads through the public API) ---------------------------------- *)
SemLocked(s) == s.val = 0 \/ \E i \in 1..Len(s.waiters) : s.tk[s.waiters[i]].fst # "canc"
Obs(s) == <<Len(s.running), Len(s.cancelled), Len(s.ended), IF SemLocked(s) THEN 1 ELSE 0,
            IF s.locked THEN 1 ELSE 0, s.val>>           \* pool_size getter = free count (KF-B)
AliveSeq(s) == SortedSeq({t \in PT : s.tk[t].st = "pend"})
GObs(s) == [i \in 1..Len(s.names) |->
              LET n == s.names[i] IN
              IF n \in DOMAIN s.gids THEN [g |-> n, ok |-> TRUE, ids |-> SortedSeq(s.gids[n])]
              ELSE [g |-> n, ok |-> FALSE, ids |-> <<>>]]
Emit(s, rec) == [s EXCEPT !.evs = Append(@, rec @@ [o |-> Obs(s), al |-> AliveSeq(s), G |-> GObs(s)])]

TplOf(s, r) == Tpl[s.req[r].t]
PlanOfReq(s, r) == IF Cls = "SimpleTaskPool" THEN Plan ELSE TplOf(s, r)
PlanOfTask(s, t) == PlanOfReq(s, s.tk[t].r)
EvR(s, r) == IF Cls = "SimpleTaskPool" THEN -1 ELSE r       \* request index as user code can know it
GroupsOf(s, id) == LET S == {i \in 1..Len(s.names) : s.names[i] \in DOMAIN s.gids /\ id \in s.gids[s.names[i]]}
                   IN [k \in 1..Cardinality(S) |-> s.names[SortedSeq(S)[k]]]

(* ---- kernel: futures, tasks, semaphore ----------------------------------------------------------------- *)
CallSoon(s, h) == [s EXCEPT !.ready = Append(@, h)]
RunH(t) == [k |-> "run", t |-> t, c |-> -1]
GcbH(owner, child) == [k |-> "gcb", t |-> owner, c |-> child]

(* resolve / cancel the future task t is awaiting (each future has exactly one waiter): schedules its wake-up *)
FutSet(s, t, how) ==
  IF s.tk[t].fst # "pend" THEN s
  ELSE CallSoon([s EXCEPT !.tk[t].fst = how], RunH(t))

(* asyncio.Task.cancel() *)
RECURSIVE TaskCancel(_, _)
RECURSIVE CancelChildren(_, _, _)
CancelChildren(s, ch, i) ==          \* _GatheringFuture.cancel(): cancel every child; TRUE if one accepted
  IF i > Len(ch) THEN [s |-> s, any |-> FALSE]
  ELSE LET accepted == s.tk[ch[i]].st = "pend"
           r1 == CancelChildren(TaskCancel(s, ch[i]), ch, i + 1)
       IN [s |-> r1.s, any |-> r1.any \/ accepted]
TaskCancel(s, t) ==
  IF s.tk[t].st # "pend" THEN s
  ELSE IF s.tk[t].wait = "gath" /\ s.tk[t].fst = "pend"
  THEN LET r1 == CancelChildren(s, s.tk[t].gch, 1) IN
       IF r1.any THEN [r1.s EXCEPT !.tk[t].gcreq = TRUE] ELSE [r1.s EXCEPT !.tk[t].must = TRUE]
  ELSE IF s.tk[t].wait # "none" /\ s.tk[t].fst = "pend" THEN FutSet(s, t, "canc")
  ELSE [s EXCEPT !.tk[t].must = TRUE]

(* Semaphore._wake_up_next on the pool semaphore *)
WakeNext(s) ==
  LET idx == {i \in 1..Len(s.waiters) : s.tk[s.waiters[i]].fst = "pend"} IN
  IF idx = {} THEN s
  ELSE LET i == CHOOSE j \in idx : \A k \in idx : j <= k
       IN FutSet([s EXCEPT !.val = Dec(@)], s.waiters[i], "res")
SemRelease(s) == WakeNext([s EXCEPT !.val = Inc(@)])

(* the per-call semaphore of a map request: its only possible waiter is the request's own spawner *)
MapWake(s, r) ==
  IF s.tk[SP(r)].wait = "msem" /\ s.tk[SP(r)].fst = "pend"
  THEN FutSet([s EXCEPT !.mval[r] = @ - 1], SP(r), "res") ELSE s
MapRelease(s, r) == MapWake([s EXCEPT !.mval[r] = @ + 1], r)

(* a task's coroutine has returned / raised: mark it done and schedule its done-callbacks (gather) *)
RECURSIVE SchedCbs(_, _, _, _)
SchedCbs(s, t, cbs, i) == IF i > Len(cbs) THEN s ELSE SchedCbs(CallSoon(s, GcbH(cbs[i], t)), t, cbs, i + 1)
TaskDone(s, t, how0, tok) ==
  (* Task.__step: "Task is cancelled right before coro stops" - a coroutine that RETURNS while must_cancel is set
     leaves its Task in the cancelled state (open finding KF-K for pool tasks) *)
  LET how == IF how0 = "ok" /\ s.tk[t].must THEN "canc" ELSE how0 IN
  SchedCbs([s EXCEPT !.tk[t].st = "done", !.tk[t].pc = "done", !.tk[t].dres = how, !.tk[t].etok = tok,
                     !.tk[t].wait = "none", !.tk[t].fst = "none", !.tk[t].must = FALSE],
           t, s.tk[t].cbs, 1)

(* the coroutine of t suspends on a fresh future of the given kind; a cancellation requested during this very
   step (must_cancel) cancels that future at once (Task.__step after the yield) *)
Suspend(s, t, pc, kind) ==
  LET s1 == [s EXCEPT !.tk[t].pc = pc, !.tk[t].wait = kind, !.tk[t].fst = "pend"] IN
  IF s1.tk[t].must THEN FutSet([s1 EXCEPT !.tk[t].must = FALSE], t, "canc") ELSE s1

(* ---- errors as the harness reports them ------------------------------------------------------------------ *)
Isa(res) ==
  CASE res = "ok" -> <<>>
    [] res = "PoolIsLocked" -> <<"PoolIsLocked", "PoolException", "Exception">>
    [] res = "PoolIsClosed" -> <<"PoolIsClosed", "PoolException", "Exception">>
    [] res = "NotCoroutineFunction" -> <<"NotCoroutineFunction", "NotCoroutine", "PoolException", "Exception">>
    [] res = "ValueError" -> <<"ValueError", "Exception">>
    [] res = "TaskGroupAlreadyExists" -> <<"TaskGroupAlreadyExists", "InvalidGroupName", "PoolException", "Exception">>
    [] res = "TaskGroupNotFound" -> <<"TaskGroupNotFound", "InvalidGroupName", "PoolException", "Exception">>
    [] res = "TaskNotFound" -> <<"TaskNotFound", "InvalidTaskID", "PoolException", "Exception">>
    [] res = "AlreadyCancelled" -> <<"AlreadyCancelled", "TaskEnded", "PoolException", "Exception">>
    [] res = "AlreadyEnded" -> <<"AlreadyEnded", "TaskEnded", "PoolException", "Exception">>
    [] OTHER -> <<res, "Exception">>

(* ---- operations of the public API (performed in a gap or at a user-code point) ----------------------------- *)
OpEv(s, op, where, res, extra) ==
  Emit(s, [e |-> "op", name |-> op.o, where |-> where, res |-> res, isa |-> Isa(res)] @@ extra)

RECURSIVE GenName(_, _, _)
GenName(s, base, i) == LET n == base \o ToString(i) IN IF n \in DOMAIN s.gids THEN GenName(s, base, i + 1) ELSE n
RECURSIVE GenIdx(_, _, _)
GenIdx(s, base, i) == IF (base \o ToString(i)) \in DOMAIN s.gids THEN GenIdx(s, base, i + 1) ELSE i

ExpOf(kind, num) == IF kind \in MapKinds THEN [j \in 1..num |-> "x" \o ToString(j - 1)] ELSE <<"x">>

OpSpawn(s, op, where) ==
  LET r    == s.nreq
      tp   == Tpl[op.t]
      kind == tp.kind
      isMap == kind \in MapKinds
      named == tp.gname # ""
      base == IF kind = "start" THEN "start-group-" ELSE kind \o "-" \o FnName \o "-group-"
      gen  == IF kind = "start" THEN base \o ToString(s.startCalls) ELSE GenName(s, base, 0)
      name == IF named THEN tp.gname ELSE gen
      res  == IF tp.notcoro THEN "NotCoroutineFunction"
              ELSE IF s.closed THEN "PoolIsClosed"
              ELSE IF s.locked THEN "PoolIsLocked"
              ELSE IF isMap /\ tp.nc < 1 THEN "ValueError"
              ELSE IF kind # "start" /\ name \in DOMAIN s.gids THEN "TaskGroupAlreadyExists"
              ELSE "ok"
      plan == IF Cls = "SimpleTaskPool" THEN Plan ELSE tp
      s0   == [s EXCEPT !.nreq = @ + 1, !.usedT = @ \cup {op.t},
                        !.req[r] = [t |-> op.t, name |-> IF res = "ok" THEN name ELSE "", calls |-> 0, pulls |-> 0,
                                    acc |-> res = "ok"]]
      s1   == IF res # "ok" THEN s0
              ELSE CallSoon(
                     [s0 EXCEPT !.gids = IF name \in DOMAIN @ THEN @ ELSE (name :> {}) @@ @,
                                !.gorder = IF name \in SeqSetL(@) THEN @ ELSE Append(@, name),
                                !.metaRun = (name :> SP(r)) @@ @,
                                !.names = IF name \in SeqSetL(@) THEN @ ELSE Append(@, name),
                                !.startCalls = IF kind = "start" THEN @ + 1 ELSE @,
                                !.mval[r] = IF isMap THEN tp.nc ELSE 0,
                                !.tk[SP(r)] = [NoTask EXCEPT !.st = "pend", !.pc = "new", !.r = r]],
                     RunH(SP(r)))
      ret  == IF res = "ok" THEN name ELSE ""
  IN OpEv(s1, op, where, res,
          [r |-> r, t |-> op.t, kind |-> kind, num |-> tp.num, nc |-> tp.nc, named |-> named, gname |-> tp.gname,
           fn |-> IF kind = "start" THEN "" ELSE FnName, notcoro |-> tp.notcoro, ret |-> ret,
           pre |-> IF res = "ok" /\ ~named THEN base ELSE ret,
           idx |-> IF res # "ok" \/ named THEN -1 ELSE IF kind = "start" THEN s.startCalls ELSE GenIdx(s, base, 0),
           exp |-> ExpOf(kind, tp.num), ecb |-> plan.ecb, ccb |-> plan.ccb])

RECURSIVE CancelSeq(_, _, _)
CancelSeq(s, ids, i) == IF i > Len(ids) THEN s ELSE CancelSeq(TaskCancel(s, ids[i]), ids, i + 1)

IdErr(s, id) == IF id \in SeqSetL(s.running) THEN "ok"
                ELSE IF id \in SeqSetL(s.cancelled) THEN "AlreadyCancelled"
                ELSE IF id \in SeqSetL(s.ended) THEN "AlreadyEnded" ELSE "TaskNotFound"
RECURSIVE FirstErr(_, _, _)
FirstErr(s, ids, i) == IF i > Len(ids) THEN "ok"
                       ELSE IF IdErr(s, ids[i]) # "ok" THEN IdErr(s, ids[i]) ELSE FirstErr(s, ids, i + 1)

OpCancel(s, op, where) ==
  LET res == FirstErr(s, op.ids, 1)
      s1  == IF res = "ok" THEN CancelSeq(s, op.ids, 1) ELSE s
  IN OpEv(s1, op, where, res, [ids |-> op.ids])

(* _cancel_and_remove_all_from_group: meta task first, then the members in set.pop() order (ascending for small ints) *)
CancelGroupCore(s, name) ==
  LET s1 == IF name \in DOMAIN s.metaRun
            THEN [TaskCancel(s, s.metaRun[name]) EXCEPT
                    !.metaRun = [n \in (DOMAIN s.metaRun) \ {name} |-> s.metaRun[n]],
                    !.metaCanc = Append(@, s.metaRun[name])]
            ELSE s
      members == SortedSeq(s.gids[name] \cap SeqSetL(s.running))
  IN CancelSeq(s1, members, 1)
ForgetGroup(s, name) == [s EXCEPT !.gids = [n \in (DOMAIN s.gids) \ {name} |-> s.gids[n]],
                                  !.gorder = RemoveFirst(@, name)]

OpCancelGroup(s, op, where) ==
  LET name == op.g
      known == name \in DOMAIN s.gids
      s2 == IF known THEN ForgetGroup(CancelGroupCore(s, name), name) ELSE s
  IN OpEv(s2, op, where, IF known THEN "ok" ELSE "TaskGroupNotFound", [g |-> name, r |-> op.r])

RECURSIVE CancelAllLoop(_)
CancelAllLoop(s) ==     \* while self._task_groups: popitem()  (LIFO over insertion order)
  IF Len(s.gorder) = 0 THEN s
  ELSE LET name == s.gorder[Len(s.gorder)] IN CancelAllLoop(ForgetGroup(CancelGroupCore(s, name), name))
OpCancelAll(s, op, where) == OpEv(CancelAllLoop(s), op, where, "ok", [x |-> 0])

OpStop(s, op, where) ==
  LET n   == IF op.o = "stop_all" THEN Len(s.running) ELSE op.n
      k   == IF n <= 0 THEN 0 ELSE IF n > Len(s.running) THEN Len(s.running) ELSE n
      ids == [i \in 1..k |-> s.running[Len(s.running) - i + 1]]
  IN OpEv(CancelSeq(s, ids, 1), op, where, "ok", [n |-> IF op.o = "stop_all" THEN 0 ELSE op.n, ret |-> ids])

OpLock(s, op, where) == OpEv([s EXCEPT !.locked = (op.o = "lock")], op, where, "ok", [x |-> 0])

OpSetSize(s, op, where) ==          \* KF-B: the setter overwrites the semaphore's free count, wakes nobody
  IF op.n < 0 THEN OpEv(s, op, where, "ValueError", [n |-> op.n])
  ELSE OpEv([s EXCEPT !.val = op.n], op, where, "ok", [n |-> op.n])

RECURSIVE UnionIds(_, _, _)
UnionIds(s, names, i) == IF i > Len(names) THEN {} ELSE s.gids[names[i]] \cup UnionIds(s, names, i + 1)
OpGetIds(s, op, where) ==
  LET known == \A i \in 1..Len(op.names) : op.names[i] \in DOMAIN s.gids
  IN OpEv(s, op, where, IF known THEN "ok" ELSE "TaskGroupNotFound",
          [names |-> op.names, ret |-> IF known THEN SortedSeq(UnionIds(s, op.names, 1)) ELSE <<>>])

OpHStart(s, op, where) ==
  LET h == s.nh
      s1 == CallSoon([s EXCEPT !.nh = @ + 1,
                               !.tk[HT(h)] = [NoTask EXCEPT !.st = "pend", !.pc = "new", !.hkind = op.kind, !.re = op.re]],
                     RunH(HT(h)))
  IN OpEv(s1, op, where, "ok", [h |-> h, kind |-> op.kind, re |-> op.re])

OpHCancel(s, op, where) ==      \* the user cancels the task that awaits flush() / gather_and_close() / until_closed()
  LET h == HT(op.h)
      can == op.h >= 0 /\ op.h < s.nh /\ s.tk[h].st = "pend"
  IN OpEv(IF can THEN TaskCancel([s EXCEPT !.tk[h].hcanc = TRUE], h) ELSE s, op, where, IF can THEN "ok" ELSE "skip", [h |-> op.h])

OpRelease(s, op, where) ==
  LET t == op.id
      can == t \in PT /\ s.tk[t].st = "pend" /\ s.tk[t].wait = "gate" /\ s.tk[t].fst = "pend"
      s1 == IF can THEN FutSet([s EXCEPT !.tk[t].gout = op.out], t, "res") ELSE s
  IN OpEv(s1, op, where, IF can THEN "ok" ELSE "skip", [id |-> t, out |-> op.out])

OpReleaseCb(s, op, where) ==
  LET t == op.id
      can == t \in PT /\ s.tk[t].st = "pend" /\ s.tk[t].wait = "cbg" /\ s.tk[t].fst = "pend"
             /\ s.tk[t].pc = (IF op.which = "ccb" THEN "ccbgate" ELSE "ecbgate")
  IN OpEv(IF can THEN FutSet(s, t, "res") ELSE s, op, where, IF can THEN "ok" ELSE "skip", [id |-> t, which |-> op.which])

DoOp(s, op, where) ==
  CASE op.o = "spawn" -> OpSpawn(s, op, where)
    [] op.o = "cancel" -> OpCancel(s, op, where)
    [] op.o = "cancel_group" -> OpCancelGroup(s, op, where)
    [] op.o = "cancel_all" -> OpCancelAll(s, op, where)
    [] op.o \in {"stop", "stop_all"} -> OpStop(s, op, where)
    [] op.o \in {"lock", "unlock"} -> OpLock(s, op, where)
    [] op.o = "set_size" -> OpSetSize(s, op, where)
    [] op.o = "get_ids" -> OpGetIds(s, op, where)
    [] op.o = "hstart" -> OpHStart(s, op, where)
    [] op.o = "hcancel" -> OpHCancel(s, op, where)
    [] op.o = "release" -> OpRelease(s, op, where)
    [] op.o = "release_cb" -> OpReleaseCb(s, op, where)

(* a user-code point: operations armed for exactly this point run here, inside the current handle *)
PtName(kind, a, b) == IF b < 0 THEN kind \o ":" \o ToString(a) ELSE kind \o ":" \o ToString(a) \o ":" \o ToString(b)
RECURSIVE RunArmed(_, _, _)
RunArmed(s, pt, i) ==
  IF i > Len(s.armed) THEN s
  ELSE IF s.armed[i].pt = pt
  THEN LET op == s.armed[i].op
           s1 == [s EXCEPT !.armed = SubSeq(@, 1, i - 1) \o SubSeq(@, i + 1, Len(@))]
       IN RunArmed(DoOp(s1, op, pt), pt, i)
  ELSE RunArmed(s, pt, i + 1)
Point(s, kind, a, b) == IF Len(s.armed) = 0 THEN s ELSE RunArmed(s, PtName(kind, a, b), 1)

(* ---- the pool task: _StartGuard + _run_task / _run_task_never_started ------------------------------------------ *)
TaskName(t) == PoolStr \o "_Task-" \o ToString(t)

(* end of the wrapper coroutine: pend = "none" (returns), "exc" (re-raises ptok) or "canc" *)
WrapperDone(s, t) ==
  LET p == s.tk[t].pend IN
  TaskDone(s, t, IF p = "none" THEN "ok" ELSE p, s.tk[t].ptok)

(* user end-callback (after _task_ending moved the id to ended and released the slot) *)
EcbPhase(s, t) ==
  LET k == PlanOfTask(s, t).ecb
      r == EvR(s, s.tk[t].r) IN
  IF k = "none" THEN WrapperDone(s, t)
  ELSE LET s1 == Point(Emit(s, [e |-> "ecb_in", id |-> t, r |-> r, tn |-> TaskName(t)]), "ecb", t, -1) IN
       IF k = "sync" THEN WrapperDone(Emit(s1, [e |-> "ecb_out", id |-> t, how |-> "ret"]), t)
       ELSE IF k = "sraise"
       THEN WrapperDone([Emit(s1, [e |-> "ecb_out", id |-> t, how |-> "exc"]) EXCEPT
                           !.tk[t].pend = "exc", !.tk[t].ptok = "ecb-" \o ToString(t)], t)
       ELSE Suspend(s1, t, "ecbgate", "cbg")                 \* async / araise: waits on its gate

(* _task_ending: registry move, slot release, (map: per-call semaphore release), user callback *)
Ending(s, t) ==
  IF t \notin SeqSetL(s.running) /\ t \notin SeqSetL(s.cancelled)
  THEN (* the pool has forgotten the task under its feet (only after misuse: the pool was unlocked while closing and
          closed over a task requested afterwards): both lookups raise KeyError, nothing is released, no callback *)
       TaskDone(s, t, "exc", "KeyError")
  ELSE
  LET inRun == t \in SeqSetL(s.running)
      s1 == [s EXCEPT !.running = IF inRun THEN RemoveFirst(@, t) ELSE @,
                      !.cancelled = IF inRun THEN @ ELSE RemoveFirst(@, t),
                      !.ended = Append(@, t)]
      s2 == SemRelease(s1)
      r  == s.tk[t].r
      s3 == IF Cls = "TaskPool" /\ TplOf(s, r).kind \in MapKinds THEN MapRelease(s2, r) ELSE s2
  IN EcbPhase(s3, t)

(* _task_cancellation: registry move running -> cancelled, user cancel-callback *)
Cancellation(s, t) ==
  LET s1 == [s EXCEPT !.running = RemoveFirst(@, t), !.cancelled = Append(@, t)]
      k  == PlanOfTask(s, t).ccb
      r  == EvR(s, s.tk[t].r) IN
  IF k = "none" THEN Ending(s1, t)
  ELSE LET s2 == Point(Emit(s1, [e |-> "ccb_in", id |-> t, r |-> r, tn |-> TaskName(t)]), "ccb", t, -1) IN
       IF k = "sync" THEN Ending(Emit(s2, [e |-> "ccb_out", id |-> t, how |-> "ret"]), t)
       ELSE IF k = "sraise"
       THEN Ending([Emit(s2, [e |-> "ccb_out", id |-> t, how |-> "exc"]) EXCEPT
                      !.tk[t].pend = "exc", !.tk[t].ptok = "ccb-" \o ToString(t)], t)
       ELSE Suspend(s2, t, "ccbgate", "cbg")

(* the worker coroutine ends: how = ret | exc | canc *)
WorkerFin(s, t, how) ==
  LET s1 == Point(Emit([s EXCEPT !.tk[t].fin = how], [e |-> "fin", id |-> t, how |-> how]), "fin", t, -1) IN
  IF how = "canc" THEN Cancellation(s1, t)
  ELSE IF how = "exc" THEN Ending([s1 EXCEPT !.tk[t].pend = "exc", !.tk[t].ptok = "w-" \o ToString(t)], t)
  ELSE Ending(s1, t)

NewGate(s, t) == Suspend(s, t, "gate", "gate")

RunPoolTask(s0, t) ==
  LET tk0 == s0.tk[t]
      throwC == tk0.must \/ tk0.fst = "canc"
      s == [s0 EXCEPT !.tk[t].must = FALSE, !.tk[t].wait = "none", !.tk[t].fst = "none"]
      plan == PlanOfTask(s0, t)
  IN
  CASE tk0.pc = "new" ->
         IF throwC THEN Cancellation(s, t)                       \* _StartGuard: cancelled before the first step
         ELSE LET s1 == Point(Emit(s, [e |-> "begin", id |-> t, r |-> EvR(s, tk0.r), j |-> tk0.j, tn |-> TaskName(t),
                                       grps |-> GroupsOf(s, t), dup |-> FALSE]), "begin", t, -1)
              IN IF plan.imm THEN WorkerFin(s1, t, "ret") ELSE NewGate(s1, t)
    [] tk0.pc = "gate" ->
         IF throwC
         THEN LET s1 == Point(Emit(s, [e |-> "canc", id |-> t]), "canc", t, -1)
                  react == IF tk0.again THEN "prop" ELSE plan.onc
              IN IF react = "again" THEN NewGate([s1 EXCEPT !.tk[t].again = TRUE], t)
                 ELSE WorkerFin(s1, t, IF react = "prop" THEN "canc" ELSE IF react = "swallow" THEN "ret" ELSE "exc")
         ELSE LET s1 == Emit(s, [e |-> "resume", id |-> t, out |-> tk0.gout])
              IN IF tk0.gout = "again" THEN NewGate(s1, t) ELSE WorkerFin(s1, t, tk0.gout)
    [] tk0.pc = "ccbgate" ->
         IF throwC
         THEN Ending([Emit(s, [e |-> "ccb_out", id |-> t, how |-> "canc"]) EXCEPT !.tk[t].pend = "canc"], t)
         ELSE IF plan.ccb = "araise"
         THEN Ending([Emit(s, [e |-> "ccb_out", id |-> t, how |-> "exc"]) EXCEPT
                        !.tk[t].pend = "exc", !.tk[t].ptok = "ccb-" \o ToString(t)], t)
         ELSE Ending(Emit(s, [e |-> "ccb_out", id |-> t, how |-> "ret"]), t)
    [] tk0.pc = "ecbgate" ->
         IF throwC
         THEN WrapperDone([Emit(s, [e |-> "ecb_out", id |-> t, how |-> "canc"]) EXCEPT !.tk[t].pend = "canc"], t)
         ELSE IF plan.ecb = "araise"
         THEN WrapperDone([Emit(s, [e |-> "ecb_out", id |-> t, how |-> "exc"]) EXCEPT
                             !.tk[t].pend = "exc", !.tk[t].ptok = "ecb-" \o ToString(t)], t)
         ELSE WrapperDone(Emit(s, [e |-> "ecb_out", id |-> t, how |-> "ret"]), t)

(* ---- spawners: _apply_spawner / _start_num / _arg_consumer over _start_task ---------------------------------------- *)
(* tail of _start_task: take the next id, register it in the group (re-creating a forgotten group: setdefault),
   create the wrapper task *)
Register(s, sp) ==
  LET r == s.tk[sp].r
      name == s.req[r].name
      id == s.nstarted
      j == s.tk[sp].j
  IN CallSoon([s EXCEPT !.nstarted = @ + 1,
                        !.gids = IF name \in DOMAIN @ THEN [@ EXCEPT ![name] = @ \cup {id}] ELSE (name :> {id}) @@ @,
                        !.gorder = IF name \in SeqSetL(@) THEN @ ELSE Append(@, name),
                        !.running = Append(@, id),
                        !.tk[id] = [NoTask EXCEPT !.st = "pend", !.pc = "new", !.r = r, !.j = j]],
              RunH(id))

RECURSIVE SpawnLoop(_, _)
(* acquire the pool semaphore for the coroutine just created, then register; continues the loop or suspends *)
StartTask(s, sp, ignoreLock) ==
  LET r == s.tk[sp].r IN
  IF s.closed THEN TaskDone(s, sp, "exc", "PoolIsClosed")
  ELSE IF s.locked /\ ~ignoreLock THEN TaskDone(s, sp, "exc", "PoolIsLocked")          \* KF-E
  ELSE IF ~SemLocked(s) THEN SpawnLoop(Register([s EXCEPT !.val = Dec(@)], sp), sp)
  ELSE Suspend([s EXCEPT !.waiters = Append(@, sp)], sp, "sem", "sem")

MapAcquire(s, sp) ==      \* semaphore_acquired = await semaphore.acquire()
  LET r == s.tk[sp].r IN
  IF s.mval[r] > 0 THEN StartTask([s EXCEPT !.mval[r] = @ - 1, !.tk[sp].acq = TRUE], sp, TRUE)
  ELSE Suspend(s, sp, "msem", "msem")

SpawnLoop(s0, sp) ==
  LET r == s0.tk[sp].r
      tp == TplOf(s0, r)
      plan == PlanOfReq(s0, r)
      isMap == tp.kind \in MapKinds
      (* after registering the previous one: advance the loop variable *)
      s == [s0 EXCEPT !.tk[sp].i = @ + 1, !.tk[sp].acq = FALSE]
      i == s.tk[sp].i
      jcall == IF Cls = "SimpleTaskPool" THEN s.scalls ELSE i
      bad == IF Cls = "SimpleTaskPool" THEN jcall \in plan.bad ELSE i \in tp.bad
  IN
  IF isMap
  THEN LET ng == IF s.req[r].name \in DOMAIN s.gids THEN Cardinality(s.gids[s.req[r].name]) ELSE -1 IN
       IF i >= tp.num
       THEN TaskDone(Emit(s, [e |-> "pull", r |-> r, j |-> i, stop |-> TRUE, ng |-> ng]), sp, "ok", "")
       ELSE LET s1 == Point(Emit([s EXCEPT !.req[r].pulls = @ + 1], [e |-> "pull", r |-> r, j |-> i, stop |-> FALSE, ng |-> ng]),
                            "pull", r, i)
                s2 == Point(Emit([s1 EXCEPT !.req[r].calls = @ + 1, !.tk[sp].j = i],
                                 [e |-> "call", r |-> r, j |-> i, got |-> "x" \o ToString(i), raised |-> bad]), "call", r, i)
            IN IF bad THEN SpawnLoop(s2, sp) ELSE MapAcquire(s2, sp)
  ELSE IF i >= tp.num THEN TaskDone(s, sp, "ok", "")
       ELSE LET s2 == Point(Emit([s EXCEPT !.req[r].calls = @ + 1, !.scalls = @ + 1, !.tk[sp].j = jcall],
                                 [e |-> "call", r |-> EvR(s, r), j |-> jcall, got |-> "x", raised |-> bad]),
                            "call", EvR(s, r), jcall)
            IN IF bad THEN SpawnLoop(s2, sp) ELSE StartTask(s2, sp, FALSE)

RunSpawner(s0, sp) ==
  LET tk0 == s0.tk[sp]
      r == tk0.r
      throwC == tk0.must \/ tk0.fst = "canc"
      handed == tk0.fst = "res"
      s == [s0 EXCEPT !.tk[sp].must = FALSE, !.tk[sp].wait = "none", !.tk[sp].fst = "none"]
      isMap == TplOf(s0, r).kind \in MapKinds
  IN
  CASE tk0.pc = "new" ->
         IF throwC THEN TaskDone(s, sp, "canc", "")        \* a coroutine that never started just ends cancelled
         ELSE SpawnLoop([s EXCEPT !.tk[sp].i = -1], sp)
    [] tk0.pc = "sem" ->
         LET s1 == [s EXCEPT !.waiters = RemoveFirst(@, sp)] IN      \* finally: self._waiters.remove(fut)
         IF throwC
         THEN LET s2 == IF handed THEN WakeNext([s1 EXCEPT !.val = Inc(@)]) ELSE s1     \* give the slot back
                  s3 == IF isMap /\ tk0.acq THEN MapRelease(s2, r) ELSE s2               \* _arg_consumer's except branch
              IN TaskDone(s3, sp, "ok", "")
         ELSE LET s2 == IF s1.val > 0 THEN WakeNext(s1) ELSE s1
              IN SpawnLoop(Register(s2, sp), sp)
    [] tk0.pc = "msem" ->
         IF throwC
         THEN TaskDone(IF handed THEN MapWake([s EXCEPT !.mval[r] = @ + 1], r) ELSE s, sp, "ok", "")
         ELSE StartTask([s EXCEPT !.tk[sp].acq = TRUE], sp, TRUE)

(* ---- awaited pool methods, run as harness tasks: flush / gather_and_close / until_closed ----------------------------- *)
HDone(s, h, res0, tok) ==
  LET res == IF res0 = "CancelledError" /\ s.tk[h].hcanc THEN "cancelled" ELSE res0 IN
  TaskDone(Emit(s, [e |-> "hdone", h |-> HofHT(h), kind |-> s.tk[h].hkind, res |-> res, tok |-> tok]), h, "ok", "")

(* asyncio.gather (CPython 3.12): done-callbacks are registered on the children that are still pending; the
   children that are already done are processed at once, which may complete the outer future before it is
   ever awaited (then the awaiting coroutine does not suspend).  GatherStart leaves tk[h].fst = "pend"
   (suspended) or "res"/"exc" (completed eagerly; tk[h].etok names the exception). *)
GatherStep(s, h, c, re, sync) ==      \* gather's _done_callback for child c
  LET n == s.tk[h].gn + 1
      s1 == [s EXCEPT !.tk[h].gn = n]
      outerPending == s.tk[h].wait = "gath" /\ s.tk[h].fst = "pend" /\ c \in SeqSetL(s.tk[h].gch)
      fin(x, how) == IF sync THEN [x EXCEPT !.tk[h].fst = how] ELSE FutSet(x, h, how)
  IN IF ~outerPending THEN s
     ELSE IF ~re /\ s.tk[c].dres = "canc" THEN fin([s1 EXCEPT !.tk[h].etok = "CancelledError"], "exc")
     ELSE IF ~re /\ s.tk[c].dres = "exc" THEN fin([s1 EXCEPT !.tk[h].etok = s.tk[c].etok], "exc")
     ELSE IF n = Len(s.tk[h].gch)
     THEN (IF s.tk[h].gcreq THEN fin([s1 EXCEPT !.tk[h].etok = "CancelledError"], "exc") ELSE fin(s1, "res"))
     ELSE s1
GatherCb(s, h, c, re) == GatherStep(s, h, c, re, FALSE)

RECURSIVE AddCbs(_, _, _, _)
AddCbs(s, h, ch, i) ==
  IF i > Len(ch) THEN s
  ELSE AddCbs(IF s.tk[ch[i]].st = "done" THEN s ELSE [s EXCEPT !.tk[ch[i]].cbs = Append(@, h)], h, ch, i + 1)
RECURSIVE EagerDone(_, _, _, _, _)
EagerDone(s, h, ch, re, i) ==
  IF i > Len(ch) THEN s
  ELSE EagerDone(IF s.tk[ch[i]].st = "done" THEN GatherStep(s, h, ch[i], re, TRUE) ELSE s, h, ch, re, i + 1)
RECURSIVE Dedup(_, _)
Dedup(q, i) == IF i > Len(q) THEN <<>>
               ELSE IF \E k \in 1..(i - 1) : q[k] = q[i] THEN Dedup(q, i + 1) ELSE <<q[i]>> \o Dedup(q, i + 1)
GatherStart(s, h, children, re, pc) ==
  LET ch == Dedup(children, 1)
      s0 == [s EXCEPT !.tk[h].gch = ch, !.tk[h].gn = 0, !.tk[h].gcreq = FALSE, !.tk[h].pc = pc,
                      !.tk[h].wait = "gath", !.tk[h].fst = IF Len(ch) = 0 THEN "res" ELSE "pend"]
      doneAtCall == [i \in 1..Len(ch) |-> s.tk[ch[i]].st = "done"]
  IN IF Len(ch) = 0 THEN s0 ELSE EagerDone(AddCbs(s0, h, ch, 1), h, ch, re, 1)

ExcName(tok) == IF tok \in {"PoolIsLocked", "PoolIsClosed", "CancelledError"} THEN tok ELSE "Boom"
ExcTok(tok)  == IF tok \in {"PoolIsLocked", "PoolIsClosed", "CancelledError"} THEN "" ELSE tok

EndedMetas(s) ==      \* _pop_ended_meta_tasks: done spawners leave _group_meta_tasks_running (dict order)
  LET ns == SortedSeq({i \in 1..Len(s.names) : s.names[i] \in DOMAIN s.metaRun /\ s.tk[s.metaRun[s.names[i]]].st = "done"})
  IN [k \in 1..Len(ns) |-> s.metaRun[s.names[ns[k]]]]
RunningMetas(s) ==
  LET ns == SortedSeq({i \in 1..Len(s.names) : s.names[i] \in DOMAIN s.metaRun})
  IN [k \in 1..Len(ns) |-> s.metaRun[s.names[ns[k]]]]
DropEndedMetas(s) ==
  [s EXCEPT !.metaRun = [n \in {m \in DOMAIN s.metaRun : s.tk[s.metaRun[m]].st # "done"} |-> s.metaRun[n]]]

RECURSIVE FirstMetaExc(_, _, _)
FirstMetaExc(s, ch, i) == IF i > Len(ch) THEN ""
                          ELSE IF s.tk[ch[i]].dres = "exc" THEN s.tk[ch[i]].etok ELSE FirstMetaExc(s, ch, i + 1)

(* tail of gather_and_close: forget everything, set the closed event (wakes until_closed waiters in FIFO order) *)
RECURSIVE WakeAll(_, _)
WakeAll(s, ws) == IF ws = {} THEN s
                  ELSE LET w == CHOOSE y \in ws : \A z \in ws : y <= z IN WakeAll(FutSet(s, w, "res"), ws \ {w})
ClosePool(s) ==
  WakeAll([s EXCEPT !.ended = <<>>, !.cancelled = <<>>, !.running = <<>>, !.closed = TRUE],
          {x \in HTs : s.tk[x].st = "pend" /\ s.tk[x].wait = "ev" /\ s.tk[x].fst = "pend"})

RECURSIVE RunHarness(_, _)
RunHarness(s0, h) ==
  LET tk0 == s0.tk[h]
      throwC == tk0.must \/ tk0.fst = "canc"
      raised == tk0.fst = "exc"
      s == [s0 EXCEPT !.tk[h].must = FALSE, !.tk[h].wait = "none", !.tk[h].fst = "none"]
      kind == tk0.hkind
      hh == HofHT(h)
  IN
  IF tk0.pc = "new" /\ throwC THEN TaskDone(s, h, "canc", "")
  ELSE IF throwC /\ ~(kind = "flush" /\ tk0.pc = "f1") THEN HDone(s, h, "CancelledError", "")
  ELSE
  CASE kind = "until" ->
         IF tk0.pc = "new"
         THEN LET s1 == Emit(s, [e |-> "hbegin", h |-> hh, kind |-> kind, re |-> tk0.re]) IN
              IF s1.closed THEN HDone(s1, h, "ok", "") ELSE Suspend(s1, h, "ev", "ev")
         ELSE HDone(s, h, "ok", "")
    [] kind = "flush" ->
         IF tk0.pc = "new"
         THEN LET s1 == Emit(s, [e |-> "hbegin", h |-> hh, kind |-> kind, re |-> tk0.re])
                  metas == s1.metaCanc \o EndedMetas(s1)
                  s2 == GatherStart(DropEndedMetas(s1), h, metas, tk0.re, "f1")
              IN IF s2.tk[h].fst = "pend" THEN s2 ELSE RunHarness(s2, h)
         ELSE IF tk0.pc = "f1"
         THEN (* with suppress(CancelledError): a cancelled child ends the wait; other exceptions propagate *)
              IF raised /\ tk0.etok # "CancelledError" /\ ~throwC
              THEN HDone(s, h, ExcName(tk0.etok), ExcTok(tk0.etok))
              ELSE LET s1 == [s EXCEPT !.metaCanc = <<>>]
                       snap == s1.ended \o s1.cancelled
                       s2 == GatherStart(s1, h, snap, tk0.re, "f2")
                   IN IF s2.tk[h].fst = "pend" THEN s2 ELSE RunHarness(s2, h)
         ELSE (* f2: forget exactly the tasks that were awaited (fix KF-F) *)
              IF raised THEN HDone(s, h, ExcName(tk0.etok), ExcTok(tk0.etok))
              ELSE LET snap == tk0.gch IN
                   HDone([s EXCEPT !.ended = SelectSeq(@, LAMBDA id : id \notin SeqSetL(snap)),
                                   !.cancelled = SelectSeq(@, LAMBDA id : id \notin SeqSetL(snap))], h, "ok", "")
    [] kind = "gac" ->
         IF tk0.pc = "new"
         THEN LET s1 == Emit(s, [e |-> "hbegin", h |-> hh, kind |-> kind, re |-> tk0.re])
                  s2 == [s1 EXCEPT !.locked = TRUE]
                  metas == s2.metaCanc \o RunningMetas(s2)
                  s3 == GatherStart(s2, h, metas, TRUE, "g1")          \* always return_exceptions=True (fix KF-D)
              IN IF s3.tk[h].fst = "pend" THEN s3 ELSE RunHarness(s3, h)
         ELSE IF tk0.pc = "g1"
         THEN LET exc == FirstMetaExc(s, tk0.gch, 1) IN
              IF raised THEN HDone(s, h, ExcName(tk0.etok), ExcTok(tk0.etok))      \* (only a requested cancellation gets here)
              ELSE IF ~tk0.re /\ exc # "" THEN HDone(s, h, ExcName(exc), ExcTok(exc))
              ELSE LET s1 == [s EXCEPT !.metaCanc = <<>>, !.metaRun = <<>>]
                       snap == s1.ended \o s1.cancelled \o s1.running
                       s2 == GatherStart(s1, h, snap, tk0.re, "g2")
                   IN IF s2.tk[h].fst = "pend" THEN s2 ELSE RunHarness(s2, h)
         ELSE (* g2 *)
              IF raised THEN HDone(s, h, ExcName(tk0.etok), ExcTok(tk0.etok))
              ELSE HDone(ClosePool(s), h, "ok", "")

(* ---- executing one handle ------------------------------------------------------------------------------------------ *)
RunHandle(s0) ==
  LET h == Head(s0.ready)
      s == [s0 EXCEPT !.ready = Tail(@)]
      s1 == IF h.k = "gcb" THEN GatherCb(s, h.t, h.c, IF s.tk[h.t].hkind = "gac" /\ s.tk[h.t].pc = "g1" THEN TRUE ELSE s.tk[h.t].re)
            ELSE IF s.tk[h.t].st # "pend" THEN s
            ELSE IF IsPT(h.t) THEN RunPoolTask(s, h.t)
            ELSE IF IsSP(h.t) THEN RunSpawner(s, h.t)
            ELSE RunHarness(s, h.t)
  IN Emit(s1, [e |-> "h", t |-> "-", idle |-> Len(s1.ready) = 0])

=============================================================================
