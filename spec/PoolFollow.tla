----------------------------- MODULE PoolFollow -----------------------------
(***************************************************************************)
(* Code -> PoolImpl.  The primitive commands that the harness actually     *)
(* executed for ANY schedule (random, directed; macros such as idle/drain  *)
(* expanded) are applied to the implementation-level specification, and    *)
(* after every command the model's observation is compared with what the   *)
(* real pool showed (counters, flags, free slots, length of the ready      *)
(* queue).  PoolImpl is deterministic, so there is exactly one behaviour   *)
(* to follow; the first disagreement is reported as model drift (never as  *)
(* a property violation).  One TLC run follows a batch of runs that share  *)
(* a pool configuration.                                                   *)
(***************************************************************************)
EXTENDS PoolImpl, Json, IOUtils, TLCExt

Runs == JsonDeserialize(IOEnv.TRACE_FILE)       \* <<run>> ; run = <<[c, op, pt, o]>>

VARIABLES tid, l, st, bad
fvars == <<tid, l, st, bad>>

Pred(s) == [run |-> Len(s.running), canc |-> Len(s.cancelled), end |-> Len(s.ended),
            full |-> IF SemLocked(s) THEN 1 ELSE 0, lk |-> IF s.locked THEN 1 ELSE 0, size |-> s.val,
            nready |-> Len(s.ready), val |-> s.val]
Agree(s, o) == LET p == Pred(s) IN
  p.run = o.run /\ p.canc = o.canc /\ p.end = o.end /\ p.full = o.full /\ p.lk = o.lk /\ p.size = o.size
  /\ p.nready = o.nready /\ p.val = o.val

Apply(s, c) ==
  CASE c.c = "step" -> IF Len(s.ready) > 0 THEN RunHandle(s) ELSE s
    [] c.c = "op"   -> DoOp(s, c.op, "gap")
    [] c.c = "arm"  -> [s EXCEPT !.armed = Append(@, [pt |-> c.pt, op |-> c.op])]

FInit == tid \in 1..Len(Runs) /\ l = 0 /\ st = Init0 /\ bad = 0

FNext == /\ l < Len(Runs[tid]) /\ bad = 0
         /\ LET c  == Runs[tid][l + 1]
                s2 == Apply([st EXCEPT !.evs = <<>>], c)
            IN /\ st' = [s2 EXCEPT !.evs = <<>>]
               /\ bad' = IF c.c # "arm" /\ ~Agree(s2, c.o) THEN l + 1 ELSE 0
         /\ l' = l + 1
         /\ UNCHANGED tid

FSpec == FInit /\ [][FNext]_fvars

Report == (l = Len(Runs[tid]) \/ bad # 0) =>
            PrintT("FOLLOW" \o ToJson([tid |-> tid, n |-> l, bad |-> bad, model |-> Pred(st)]))
=============================================================================
