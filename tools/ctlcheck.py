"""Checks of the control interface (C16-C19): scripts generated from the TLA+ specifications (spec/Control.tla,
spec/CtlCommands.tla) are executed on real sessions / servers and the recorded runs are judged by Control!CtlMon."""
from __future__ import annotations

import hashlib
import json
import multiprocessing as mp
import os
import random
import shutil
import subprocess
import sys
import time

sys.path.insert(0, os.path.dirname(os.path.abspath(__file__)))
import common  # noqa: E402
import ctlcmds  # noqa: E402

CLASSES = ["TaskPool", "SimpleTaskPool", "SubPool", "SubPool2"]
WIDTHS_Q = [1, 20, 80, 500, None]       # None: the handshake leaves the width to the server (JSON null)
WIDTHS_T = [1, 10, 20, 40, 80, 120, 500, None]


def _pool_class(name):
    sys.path.insert(0, os.path.join(common.VERIF, "harness"))
    import ctlrun
    w = ctlrun.CtlWorld(name, twin=False)
    try:
        return type(w.pool), w.public_members(), w.nonpublic_members()
    finally:
        w.close()


# ---- C16: handshake + command surface ---------------------------------------------------------------------------
def surface_jobs(tier):
    jobs = []
    widths = WIDTHS_T if tier == "thorough" else WIDTHS_Q
    for cls in CLASSES:
        _, public, nonpublic = _pool_class(cls)
        for w in widths:
            script = [{"c": "connect", "s": 0, "width": w}, {"c": "idle"}]
            for m in public:
                d = ctlcmds.dashed(m)
                for flag in ("-h", "--help"):
                    script.append({"c": "send", "s": 0, "text": "%s %s" % (d, flag), "cls": "help", "cmd": d})
                    script.append({"c": "idle"})
            for m in nonpublic[:6]:
                for text in (m, ctlcmds.dashed(m), ctlcmds.dashed(m).lstrip("-")):
                    script.append({"c": "send", "s": 0, "text": text, "cls": "nonpublic", "cmd": text})
                    script.append({"c": "idle"})
            script.append({"c": "send", "s": 0, "text": "num-running", "cls": "query", "call": {"kind": "get", "m": "num_running"}})
            script.append({"c": "eof", "s": 0})
            jobs.append({"kind": "surface", "cls": cls, "width": w, "script": script, "twin": True})
    return jobs


# ---- C17: command == method call -----------------------------------------------------------------------------------
def enumerate_programs(cls_name, table, maxopts, wd):
    """TLC enumerates the programs of the reflected command table (spec/CtlCommands.tla)."""
    d = os.path.join(wd, "cmds-" + cls_name)
    os.makedirs(d, exist_ok=True)
    shutil.copy(os.path.join(common.SPEC, "CtlCommands.tla"), d)
    import l1
    cmds = [{"name": c["name"], "params": [{"name": p["name"], "kind": p["kind"], "n": len(ctlcmds.domain(p["name"]))}
                                            for p in c["params"]]} for c in table]
    with open(os.path.join(d, "MCC.tla"), "w") as f:
        f.write("---- MODULE MCC ----\nEXTENDS CtlCommands\nCmdsDef == %s\n====\n" % l1.tla_val(cmds))
    with open(os.path.join(d, "MCC.cfg"), "w") as f:
        f.write("SPECIFICATION Spec\nCONSTANTS\n  Cmds <- CmdsDef\n  MaxOpts = %d\n" % maxopts)
    p = subprocess.run(["tlc", "-workers", "1", "-metadir", os.path.join(d, "meta"), "-noGenerateSpecTE", "-config", "MCC.cfg", "MCC.tla"],
                       cwd=d, stdout=subprocess.PIPE, stderr=subprocess.STDOUT, text=True, timeout=1800)
    shutil.rmtree(os.path.join(d, "meta"), ignore_errors=True)
    progs = common.parse_printed_json(p.stdout, "PROG")
    if "No error has been found" not in p.stdout or not progs:
        raise common.MachineryError("TLC failed to enumerate programs for %s:\n%s" % (cls_name, p.stdout[-1500:]))
    return progs


PREFIXES = {
    "TaskPool": [[], [("apply ctlfuncs.work --num 2 --group-name g1",
                       {"kind": "call", "m": "apply", "args": [{"$path": "ctlfuncs.work"}], "kwargs": {"num": 2, "group_name": "g1"}})],
                 # a task that has failed: flush / gather-and-close then raise, and the reply must be that exception's str()
                 [("apply ctlfuncs.fail --group-name g1",
                   {"kind": "call", "m": "apply", "args": [{"$path": "ctlfuncs.fail"}], "kwargs": {"group_name": "g1"}})],
                 # ... also when that str() ends in a newline of its own
                 [("apply ctlfuncs.failnl --group-name g1",
                   {"kind": "call", "m": "apply", "args": [{"$path": "ctlfuncs.failnl"}], "kwargs": {"group_name": "g1"}})]],
    # (the subclass overrides lock(): a command must run the override, which counts - see lock-count)
    "SubPool": [[], [("lock", {"kind": "call", "m": "lock"})]],
    "SubPool2": [[]],
    "SimpleTaskPool": [[], [("start 2", {"kind": "call", "m": "start", "args": [2]})]],
}


def command_jobs(tier, wd, seed):
    jobs, nprog = [], 0
    maxopts = 3 if tier == "thorough" else 2
    for cls in CLASSES:
        pcls, _, _ = _pool_class(cls)
        table = ctlcmds.command_table(pcls)
        progs = enumerate_programs(cls, table, maxopts, wd)
        nprog += len(progs)
        rng = random.Random(seed)
        cap = 6000 if tier == "thorough" else 1500
        if len(progs) > cap:
            # (what a subclass adds or overrides itself is always kept)
            own = [p for p in progs if cls.startswith("SubPool") and table[p["cmd"] - 1]["member"] in vars(pcls)][:cap // 2]
            rest = [p for p in progs if p not in own]
            progs = own + rng.sample(rest, cap - len(own))
        for i, pr in enumerate(progs):
            cmd = table[pr["cmd"] - 1]
            choice = {cmd["params"][j]["name"]: v - 1 for j, v in enumerate(pr["choice"]) if v > 0}
            line, call = ctlcmds.build(cmd, choice)
            prefixes = PREFIXES[cls]
            # the awaited methods behave very differently depending on what is in the pool: run them after every prefix
            pres = prefixes if cmd["member"] in ("flush", "gather_and_close", "until_closed", "cancel", "cancel_group", "stop") \
                or (cls.startswith("SubPool") and cmd["member"] in vars(pcls)) else [prefixes[i % len(prefixes)]]      # (a subclass's own members: after every prefix)
            for pre in pres:
                script = [{"c": "connect", "s": 0, "width": 80, "style": 1 if i % 4 == 3 else 0}, {"c": "idle"}]
                for text, pcall in pre:
                    script += [{"c": "send", "s": 0, "text": text, "cls": "mutate", "call": pcall}, {"c": "idle"}]
                script += [{"c": "send", "s": 0, "text": line, "cls": "cmd", "call": call}, {"c": "idle"},
                           {"c": "release_all"}, {"c": "idle"},
                           {"c": "send", "s": 0, "text": "num-ended", "cls": "query", "call": {"kind": "get", "m": "num_ended"}},
                           {"c": "idle"}, {"c": "eof", "s": 0}]
                jobs.append({"kind": "command", "cls": cls, "line": line, "script": script, "twin": True})
    # a dotted path is resolved when the command is executed: the same path after the attribute was rebound names the new function
    ap = lambda: {"kind": "call", "m": "apply", "args": [{"$path": "ctlfuncs.alias"}], "kwargs": {}}       # noqa: E731
    for cls in ("TaskPool", "SubPool"):
        script = [{"c": "connect", "s": 0, "width": 80}, {"c": "idle"}, {"c": "rebind", "name": "alias", "to": "quick"},
                  {"c": "send", "s": 0, "text": "apply ctlfuncs.alias", "cls": "cmd", "call": ap()}, {"c": "idle"},
                  {"c": "rebind", "name": "alias", "to": "fail"},
                  {"c": "send", "s": 0, "text": "apply ctlfuncs.alias", "cls": "cmd", "call": ap()}, {"c": "idle"},
                  {"c": "rebind", "name": "alias", "to": "work"},
                  {"c": "send", "s": 0, "text": "map ctlfuncs.alias [1,2]", "cls": "cmd",
                   "call": {"kind": "call", "m": "map", "args": [{"$path": "ctlfuncs.alias"}, {"$lit": "[1,2]"}], "kwargs": {}}}, {"c": "idle"},
                  {"c": "release_all"}, {"c": "idle"},
                  {"c": "send", "s": 0, "text": "num-ended", "cls": "query", "call": {"kind": "get", "m": "num_ended"}},
                  {"c": "idle"}, {"c": "eof", "s": 0}]
        jobs.append({"kind": "command", "cls": cls, "line": "apply ctlfuncs.alias (rebound)", "script": script, "twin": True})
    # the same container literal sent twice to a worker that empties what it is given: each command gets a container of its own
    for cls in ("TaskPool",):
        mk = lambda g: {"kind": "call", "m": "map", "args": [{"$path": "ctlfuncs.mutate"}, {"$lit": "[[1,2],[3]]"}], "kwargs": {"group_name": g}}      # noqa: E731
        script = [{"c": "connect", "s": 0, "width": 80}, {"c": "idle"},
                  {"c": "send", "s": 0, "text": "map ctlfuncs.mutate [[1,2],[3]] --group-name m1", "cls": "cmd", "call": mk("m1")}, {"c": "idle"},
                  {"c": "send", "s": 0, "text": "map ctlfuncs.mutate [[1,2],[3]] --group-name m2", "cls": "cmd", "call": mk("m2")}, {"c": "idle"},
                  {"c": "release_all"}, {"c": "idle"},
                  {"c": "send", "s": 0, "text": "num-ended", "cls": "query", "call": {"kind": "get", "m": "num_ended"}},
                  {"c": "idle"}, {"c": "eof", "s": 0}]
        jobs.append({"kind": "command", "cls": cls, "line": "map ctlfuncs.mutate (same literal twice)", "script": script, "twin": True})
    # a dotted path into a submodule that the package itself does not import (the resolver has to import it on the way)
    for cls in ("TaskPool", "SubPool"):
        call = {"kind": "call", "m": "apply", "args": [{"$path": "ctlpkg.sub.quick2"}], "kwargs": {"num": 2}}
        script = [{"c": "connect", "s": 0, "width": 80}, {"c": "idle"},
                  {"c": "send", "s": 0, "text": "apply ctlpkg.sub.quick2 --num 2", "cls": "cmd", "call": call},
                  {"c": "unimport", "module": "ctlpkg.sub"}, {"c": "idle"}, {"c": "release_all"}, {"c": "idle"},
                  {"c": "send", "s": 0, "text": "num-ended", "cls": "query", "call": {"kind": "get", "m": "num_ended"}},
                  {"c": "idle"}, {"c": "eof", "s": 0}]
        jobs.append({"kind": "command", "cls": cls, "line": "apply ctlpkg.sub.quick2 (submodule import)", "script": script, "twin": True})
    return jobs, nprog


# ---- C18: sessions under arbitrary input; scripts = behaviours of spec/Control.tla --------------------------------------
CONCRETE = {
    "TaskPool": {"query": [("num-running", {"kind": "get", "m": "num_running"}), ("is-locked", {"kind": "get", "m": "is_locked"})],
                 "mutate": [("lock", {"kind": "call", "m": "lock"}), ("unlock", {"kind": "call", "m": "unlock"}),
                            ("apply ctlfuncs.work --num 2", {"kind": "call", "m": "apply", "args": [{"$path": "ctlfuncs.work"}], "kwargs": {"num": 2}})],
                 "await": [("flush", {"kind": "call", "m": "flush"}), ("gather-and-close", {"kind": "call", "m": "gather_and_close"})],
                 "help": [("apply -h", None), ("-h", None), ("map --help", None)],
                 "unknown": [("frobnicate", None), ("apply-now 3", None), ("0", None), ("exit", None), ("quit", None), ("#", None), ("# lock", None)],
                 "badarg": [("apply", None), ("cancel-group", None), ("lock now", None), ("map ctlfuncs.work", None)],
                 "convfail": [("cancel abc", None), ("apply no.such.module", None), ("map ctlfuncs.work [1,", None), ("map ctlfuncs.work range(3)", None), ("apply ctlfuncs.work -a os.sep", None),
                              ("pool-size x", None)]},
    "SimpleTaskPool": {"query": [("num-running", {"kind": "get", "m": "num_running"}), ("func-name", {"kind": "get", "m": "func_name"})],
                       "mutate": [("start 2", {"kind": "call", "m": "start", "args": [2]}), ("lock", {"kind": "call", "m": "lock"}),
                                  ("stop 1", {"kind": "call", "m": "stop", "args": [1]}), ("unlock", {"kind": "call", "m": "unlock"})],
                       "await": [("flush", {"kind": "call", "m": "flush"}), ("gather-and-close", {"kind": "call", "m": "gather_and_close"})],
                       "help": [("start -h", None), ("--help", None), ("stop --help", None)],
                       "unknown": [("frobnicate", None), ("start-now", None), ("apply ctlfuncs.work", None), ("exit", None), ("help", None), ("#1", None), ("# start 1", None)],
                       "badarg": [("start", None), ("stop", None), ("lock 1", None)],
                       "convfail": [("start abc", None), ("stop 1.5", None), ("pool-size x", None)]},
}
PRINTABLE = "abcdefghijklmnopqrstuvwxyzABCXYZ0123456789-_=+[]{}()'\",.:;!?*&^%$#@~/\\|<> "


def spec_scripts(tier, wd, seed):
    """Behaviours of Control!Next (in-memory transport) printed by TLC."""
    d = os.path.join(wd, "ctlspec")
    os.makedirs(d, exist_ok=True)
    shutil.copy(os.path.join(common.SPEC, "Control.tla"), d)
    nsess, maxlines = (2, 4)      # (2 sessions x 5 lines over 8 line classes is already > 50 M states)
    samplek = 15 if tier == "thorough" else 150     # 1.8 M behaviours in these bounds; every k-th (by content hash) is printed
    with open(os.path.join(d, "MCS.tla"), "w") as f:
        f.write('---- MODULE MCS ----\nEXTENDS Control\nSessDef == 0..%d\nClassesDef == {"query", "mutate", "await", "help", "unknown", "badarg", "convfail", "blank"}\n'
                'TransportsDef == {"mem"}\nPrintSome == PrintLeafSampled(%d)\n====\n' % (nsess - 1, samplek))
    with open(os.path.join(d, "MCS.cfg"), "w") as f:
        f.write("SPECIFICATION Spec\nCONSTANTS\n  Sess <- SessDef\n  Classes <- ClassesDef\n  MaxLines = %d\n  Transports <- TransportsDef\n"
                "VIEW View\nINVARIANT RepliesAccounted\nINVARIANT AllAnswered\nINVARIANT DoneMeansGone\nINVARIANT PrintSome\n"
                "PROPERTY MalformedNoEffect\nPROPERTY PoolUntouched\nCHECK_DEADLOCK FALSE\n" % maxlines)
    t0 = time.time()
    p = subprocess.run(["tlc", "-workers", str(common.NCPU), "-metadir", os.path.join(d, "meta"), "-noGenerateSpecTE", "-config", "MCS.cfg", "MCS.tla"],
                       cwd=d, stdout=subprocess.PIPE, stderr=subprocess.STDOUT, text=True, timeout=3000)
    shutil.rmtree(os.path.join(d, "meta"), ignore_errors=True)
    out = p.stdout
    if "No error has been found" not in out:
        open(os.path.join(d, "MCS.out"), "w").write(out)
        raise common.MachineryError("TLC failed on Control (session slice): %s" % out[-1500:])
    hists = common.parse_printed_json(out, "SCRIPT")
    st = common.tlc_stats(out)
    info = {"config": "control_sessions", "sessions": nsess, "max_lines": maxlines, "states": st[0], "transitions": st[1],
            "behaviours_printed": len(hists), "behaviours_sampled_one_in": samplek, "wall_s": round(time.time() - t0, 1)}
    # liveness of the lifecycle part under fairness (small instance, no VIEW)
    with open(os.path.join(d, "MCL.tla"), "w") as f:
        f.write('---- MODULE MCL ----\nEXTENDS Control\nSessDef == 0..1\nClassesDef == {"query", "await", "forever", "blank"}\nTransportsDef == {"unix"}\n====\n')
    infos2 = []
    for prop, expect_violation in (("StopCompletes", False), ("StopCompletesStrict", True)):
        with open(os.path.join(d, "MCL.cfg"), "w") as f:
            f.write("SPECIFICATION Spec\nCONSTANTS\n  Sess <- SessDef\n  Classes <- ClassesDef\n  MaxLines = 2\n  Transports <- TransportsDef\n"
                    "VIEW View\nINVARIANT DoneMeansGone\nPROPERTY %s\nCHECK_DEADLOCK FALSE\n" % prop)
        p2 = subprocess.run(["tlc", "-workers", "4", "-metadir", os.path.join(d, "meta2"), "-noGenerateSpecTE", "-config", "MCL.cfg", "MCL.tla"],
                            cwd=d, stdout=subprocess.PIPE, stderr=subprocess.STDOUT, text=True, timeout=3000)
        shutil.rmtree(os.path.join(d, "meta2"), ignore_errors=True)
        violated = "Temporal properties were violated" in p2.stdout or ("Temporal property %s was violated" % prop) in p2.stdout
        if not expect_violation and "No error has been found" not in p2.stdout:
            open(os.path.join(d, "MCL.out"), "w").write(p2.stdout)
            raise common.MachineryError("TLC failed on Control (lifecycle liveness): %s" % p2.stdout[-1500:])
        if expect_violation and not violated:
            open(os.path.join(d, "MCL.out"), "w").write(p2.stdout)
            raise common.MachineryError("Control model no longer exhibits KF-L (StopCompletesStrict not violated): %s" % p2.stdout[-800:])
        st2 = common.tlc_stats(p2.stdout)
        infos2.append({"config": "control_lifecycle_liveness", "states": st2[0], "transitions": st2[1],
                       "property": prop + (" (fair): violated by the model of the code as written, as expected - known finding KF-L"
                                           if expect_violation else " (fair): holds")})
    return [h["hist"] for h in hists], [info] + infos2


def session_jobs(tier, wd, seed, refs):
    hists, infos = spec_scripts(tier, wd, seed)
    rng = random.Random(seed)
    cap = 12000 if tier == "thorough" else 900
    if len(hists) > cap:
        hists = rng.sample(hists, cap)
    jobs = []
    for n, hist in enumerate(hists):
        cls = ["TaskPool", "SimpleTaskPool"][n % 2]
        # variant A: every line is processed before the next one is sent -> the twin pool can mirror each call
        # variant B: the raw interleaving (lines queue up, sessions race) -> reply accounting only
        for serial in (True, False):
            script = []
            for a in hist:
                k = a["a"]
                if k == "connect":
                    script.append({"c": "connect", "s": a["s"], "width": 80})
                    if serial:
                        script.append({"c": "idle"})
                elif k in ("handshake", "read"):
                    script.append({"c": "idle"})
                elif k == "complete":
                    script += [{"c": "release_all"}, {"c": "idle"}]
                elif k == "eof":
                    script.append({"c": "eof", "s": a["s"]})
                elif k == "send":
                    c = a["cls"]
                    if c == "blank":
                        script.append({"c": "send", "s": a["s"], "text": "", "cls": "blank"})
                        continue
                    rr = random.Random("%d-%d-%d" % (seed, n, len(script) if serial else -len(script)))
                    rr = random.Random("%d-%d-%s" % (seed, n, json.dumps(a, sort_keys=True) + str(sum(1 for x in script if x["c"] == "send"))))
                    if c == "unknown" and rr.random() < 0.4:        # arbitrary printable text
                        text = "".join(rr.choice(PRINTABLE) for _ in range(rr.randrange(1, 30))).strip() or "?"
                        call = None
                    else:
                        text, call = rr.choice(CONCRETE[cls][c])
                    cmd = {"c": "send", "s": a["s"], "text": text, "cls": c, "cmd": text.split(" ")[0], "ser": serial}
                    if call is not None and serial:
                        cmd["call"] = call
                    if call is None:
                        cmd["cls"] = "help" if c == "help" and text.split(" ")[0] not in ("-h", "--help") else ("anyhelp" if c == "help" else c)
                        cmd["ref"] = refs(cls, text)
                    script.append(cmd)
                    if serial:
                        script.append({"c": "idle"})
                        if c == "await":
                            script += [{"c": "release_all"}, {"c": "idle"}]
            script += [{"c": "idle"}, {"c": "release_all"}, {"c": "idle"}]
            jobs.append({"kind": "session" if serial else "session-raw", "cls": cls, "script": script, "twin": serial})
    jobs += burst_jobs()
    return jobs, infos


def burst_jobs():
    """Directed scripts: several lines written at once, so that the session handles them back to back in one go
    (e.g. a group is cancelled before its spawner took its first step, then flushed / closed)."""
    B = {
        "TaskPool": [["map ctlfuncs.work [1,2] -g gm", "cancel-group gm", "flush", "num-running"],
                     ["apply ctlfuncs.work -n 2 -g ga", "cancel-all", "flush -r", "gather-and-close", "is-locked"],
                     ["apply ctlfuncs.fail -g gf", "flush", "flush -r", "apply ctlfuncs.quick", "cancel 0 5", "unknown-cmd", "lock"],
                     ["starmap ctlfuncs.quick [(1,2),(3,4)] -n 2", "doublestarmap ctlfuncs.quick [{'a':1}]", "get-group-ids starmap-quick-group-0", "cancel-group nosuch"]],
        "SimpleTaskPool": [["start 2", "cancel-group start-group-0", "flush", "num-running"],
                           ["start 1", "stop 1", "start 2", "stop-all", "flush -r", "gather-and-close", "start 1"],
                           ["start 3", "cancel-all", "flush", "stop 5", "pool-size 2", "pool-size"]],
    }
    jobs = []
    for cls, bursts in B.items():
        for lines in bursts:
            for split in (len(lines), 2, 1):        # all at once / in pairs / one by one
                script = [{"c": "connect", "s": 0, "width": 80}, {"c": "idle"}]
                for i, text in enumerate(lines):
                    first = text.split(" ")[0]
                    script.append({"c": "send", "s": 0, "text": text, "cmd": first, "ser": False,
                                   "cls": "await" if first in ("flush", "gather-and-close", "until-closed") else "burst"})
                    if (i + 1) % split == 0:
                        script.append({"c": "idle"})
                script += [{"c": "idle"}, {"c": "release_all"}, {"c": "idle"}, {"c": "eof", "s": 0}]
                jobs.append({"kind": "session-burst", "cls": cls, "script": script, "twin": False})
    return jobs


def make_refs():
    """Reply a line gets from a fresh session on a fresh pool of that class (for lines whose reply does not depend
    on the pool's state: help requests and malformed input)."""
    cache = {}
    sys.path.insert(0, os.path.join(common.VERIF, "harness"))
    import ctlrun

    def refs(cls, text):
        key = (cls, text)
        if key not in cache:
            r = ctlrun.execute({"cls": cls, "twin": False, "script": [
                {"c": "connect", "s": 0, "width": 80}, {"c": "idle"}, {"c": "send", "s": 0, "text": text}, {"c": "idle"}]})
            ws = [e["text"] for e in r["trace"] if e["e"] == "write"]
            cache[key] = ws[1] if len(ws) == 2 else ""
        return cache[key]
    return refs


# ---- running + judging -------------------------------------------------------------------------------------------------
def _exec(job):
    import ctlrun
    r = ctlrun.execute(job)
    return r


def execute_jobs(jobs):
    sys.path.insert(0, os.path.join(common.VERIF, "harness"))
    if len(jobs) < 8:
        return [_exec(j) for j in jobs]
    ctx = mp.get_context("fork")
    with common.frozen_heap(), ctx.Pool(common.NCPU) as pool:
        return pool.map(_exec, jobs, chunksize=max(1, len(jobs) // (common.NCPU * 4)))


def judge(traces, wd, name, kind="mem"):
    if not traces:
        return [], (0, 0)
    path = os.path.join(wd, name + ".json")
    with open(path, "w") as f:
        json.dump(traces, f, separators=(",", ":"))
    rc, out = common.tlc("ControlTrace", "ControlTrace.cfg", wd, env={"TRACE_FILE": path, "TRACE_KIND": kind})
    if rc != 0 or "No error has been found" not in out:
        open(os.path.join(wd, name + ".tlc.out"), "w").write(out)
        raise common.MachineryError("TLC failed on control trace batch %s: %s" % (name, out[-1500:]))
    vs = {v["tid"]: v for v in common.parse_printed_json(out, "VERDICT")}
    if sorted(vs) != list(range(1, len(traces) + 1)):
        raise common.MachineryError("control verdicts missing (%d of %d)" % (len(vs), len(traces)))
    for i, tr in enumerate(traces):
        if vs[i + 1]["n"] != len(tr):
            raise common.MachineryError("control trace %d not consumed to the end" % i)
    os.remove(path)
    return [vs[i + 1] for i in range(len(traces))], common.tlc_stats(out)


def tree_hash():
    import poolcheck
    return poolcheck.tree_hash()


def run_pipeline(tier, seed, log):
    t0 = time.time()
    wd = common.workdir("ctl-%s-%d" % (tier, seed))
    refs = make_refs()
    jobs = surface_jobs(tier)
    cj, nprog = command_jobs(tier, wd, seed)
    jobs += cj
    sj, infos = session_jobs(tier, wd, seed, refs)
    jobs += sj
    log("control: %d surface + %d command (of %d enumerated programs) + %d session scripts" % (
        len(jobs) - len(cj) - len(sj), len(cj), nprog, len(sj)))
    t1 = time.time()
    out = execute_jobs(jobs)
    log("executed %d control scripts on real sessions in %.1fs" % (len(jobs), time.time() - t1))
    bad = [(j, r) for j, r in zip(jobs, out) if not r["ok"]]
    t1 = time.time()
    verdicts, st = judge([r["trace"] for r in out], wd, "ctl")
    log("judged %d control traces with TLC in %.1fs" % (len(out), time.time() - t1))
    res = {"tier": tier, "seed": seed, "tlc": infos, "programs_enumerated": nprog, "jobs": {}, "viol": [], "hits": {},
           "prop_traces": {}, "samples": [], "harness_errors": [{"err": r["err"], "job": j["kind"]} for j, r in bad][:5],
           "judge_states": st[0], "judge_transitions": st[1], "traces": len(out), "events": sum(len(r["trace"]) for r in out)}
    rdir = os.path.join(common.WORK, "replay")
    os.makedirs(rdir, exist_ok=True)
    seen = {}
    pk = {}
    for j, r, v in zip(jobs, out, verdicts):
        res["jobs"][j["kind"]] = res["jobs"].get(j["kind"], 0) + 1
        key = hashlib.sha1(json.dumps([j["cls"], j["script"]], sort_keys=True).encode()).hexdigest()
        for h in v["hit"]:
            res["hits"][h] = res["hits"].get(h, 0) + 1
            if h not in ("C16.name", "C18.one", "C18.escape", "C18.quiet", "C17.state"):     # exercised by every script
                pk.setdefault(h.split(".")[0], set()).add(key)
        for x in v["viol"]:
            e = {"c": x["c"], "kf": "", "at": x["at"], "ent": x["ent"], "driver": j["kind"], "key": key}
            if seen.get(x["c"], 0) < 3:
                seen[x["c"]] = seen.get(x["c"], 0) + 1
                path = os.path.join(rdir, "%s-%s.json" % (x["c"], key[:10]))
                json.dump({"kind": "ctl", "job": j, "clause": x["c"], "at": x["at"]}, open(path, "w"))
                e["replay"] = path
            res["viol"].append(e)
    res["prop_traces"] = {p: len(v) for p, v in pk.items()}
    per = {}
    for j in jobs:
        if per.get(j["kind"], 0) < 2:
            per[j["kind"]] = per.get(j["kind"], 0) + 1
            res["samples"].append({"kind": j["kind"], "cls": j["cls"], "script": j["script"][:14]})
    res["wall_s"] = round(time.time() - t0, 1)
    return res


def cached(tier, seed, log):
    key = "ctl-%s-%s-%d" % (tree_hash(), tier, seed)
    cdir = os.path.join(common.WORK, "cache")
    os.makedirs(cdir, exist_ok=True)
    path = os.path.join(cdir, key + ".json")
    import fcntl
    with open(path + ".lock", "w") as lf:
        fcntl.flock(lf, fcntl.LOCK_EX)
        if os.path.exists(path) and os.environ.get("VERIF_NOCACHE") != "1":
            r = json.load(open(path))
            r["cached"] = True
            return r
        r = run_pipeline(tier, seed, log)
        json.dump(r, open(path + ".tmp", "w"))
        os.replace(path + ".tmp", path)
    r["cached"] = False
    return r


def check(pid, tier, seed, t0, finish):
    if pid == "C19":
        import ctlsockcheck
        return ctlsockcheck.check(pid, tier, seed, t0, finish)
    res = cached(tier, seed, log=lambda m: print("  " + m))
    if res["harness_errors"]:
        print("MACHINERY: control harness crashed:", res["harness_errors"][0])
        return 2
    mine = [x for x in res["viol"] if common.prop_of(x["c"]) == pid]
    mine.sort(key=lambda x: 0 if x.get("replay") else 1)
    hits = {h: n for h, n in res["hits"].items() if h.startswith(pid + ".")}
    level = "translation_validation" if pid == "C17" else "model_checking"
    cov = {"states": res["judge_states"] + sum(i.get("states", 0) for i in res["tlc"]),
           "transitions": res["judge_transitions"] + sum(i.get("transitions", 0) for i in res["tlc"]),
           "traces_validated_against_impl": res["traces"], "evaluations": res["traces"],
           "distinct_nontrivial": res["prop_traces"].get(pid, 0),
           "programs": res["jobs"].get("command", 0), "disagreements_checked": res["jobs"].get("command", 0),
           "programs_enumerated_by_tlc": res["programs_enumerated"],
           "rule": "a case is one script (connect / lines / eof, concrete lines chosen per line class) run on real ControlSession objects "
                   "over in-memory streams under the single-step loop, with a twin pool driven by direct calls; non-trivial for this "
                   "property = at least one of its clauses had its antecedent exercised",
           "samples": res["samples"][:4], "scripts_by_kind": res["jobs"], "model_checking_runs": res["tlc"],
           "clause_hits": hits, "trace_records": res["events"], "exhaustive": False, "pipeline_cached": res.get("cached", False)}
    assumptions = ["sessions are driven through ControlServer._client_connected_cb with in-memory StreamReader / recording writer",
                   "argument values are drawn from a finite hand-picked domain per parameter (tools/ctlcmds.py)",
                   "CPython 3.12 argparse / asyncio streams"]
    return finish(pid, tier, seed, level, cov, assumptions, mine, {}, t0)


def replay(data, path):
    if data.get("kind") == "sock":
        import ctlsockcheck
        return ctlsockcheck.replay(data, path)
    sys.path.insert(0, os.path.join(common.VERIF, "harness"))
    import ctlrun
    r = ctlrun.execute(data["job"])
    vs, _ = judge([r["trace"]], common.workdir("replay-ctl"), "one")
    for i, rec in enumerate(r["trace"]):
        print(i + 1, json.dumps(rec)[:300])
    for x in vs[0]["viol"]:
        print("failing clause", x)
    if any(x["c"] == data["clause"] for x in vs[0]["viol"]):
        print("VIOLATION property=%s replay=%s" % (common.prop_of(data["clause"]), path))
        return 1
    print("not reproduced")
    return 0
