"""L1 driver: model-check spec/PoolImpl.tla (+ Monitor.tla) with TLC for every environment schedule within
small bounds, and turn the behaviours TLC found into schedules for lock-step replay on the real pool."""
from __future__ import annotations

import json
import os
import re
import shutil
import threading
import sys
import time

sys.path.insert(0, os.path.dirname(os.path.abspath(__file__)))
import common  # noqa: E402

DEF_TPL = {"kind": "apply", "num": 1, "nc": 1, "gname": "", "imm": False, "onc": "prop", "ecb": "none", "ccb": "none",
           "bad": [], "notcoro": False}
DEF_PLAN = {"imm": False, "onc": "prop", "ecb": "none", "ccb": "none", "bad": []}
ALL_OPS = ["spawn", "release", "release_cb", "cancel", "cancel_group", "cancel_all", "stop", "lock", "set_size",
           "get_ids", "hstart"]


def T(**k):
    return dict(DEF_TPL, **k)


def conf(name, cls="TaskPool", size=1, tpl=(), plan=None, ops=("spawn", "release"), arms=(), outs=("ret",),
         maxops=3, nh=0, hkinds=(), sizevals=(), stopvals=(1,), maxcancel=1, mode="bfs", depth=60, num=0, props=()):
    return dict(name=name, cls=cls, size=size, tpl=[dict(DEF_TPL, **t) for t in tpl], plan=dict(DEF_PLAN, **(plan or {})),
                ops=list(ops), arms=list(arms), outs=list(outs), maxops=maxops, nh=nh, hkinds=list(hkinds),
                sizevals=list(sizevals), stopvals=list(stopvals), maxcancel=maxcancel, mode=mode, depth=depth, num=num,
                props=list(props))


def tla_val(v):
    if isinstance(v, bool):
        return "TRUE" if v else "FALSE"
    if isinstance(v, int):
        return str(v)
    if isinstance(v, str):
        return '"%s"' % v
    if isinstance(v, (list, tuple)):
        return "<<" + ", ".join(tla_val(x) for x in v) + ">>"
    if isinstance(v, set):
        return "{" + ", ".join(tla_val(x) for x in sorted(v)) + "}"
    if isinstance(v, dict):
        return "[" + ", ".join("%s |-> %s" % (k, tla_val(x)) for k, x in v.items()) + "]"
    raise TypeError(v)


def copy_specs(wd):
    """The specification modules next to the generated MC_* modules; written atomically (configurations run concurrently)."""
    for f in ("PoolImpl.tla", "PoolImplMC.tla", "Monitor.tla", "SlotAccounting.tla"):
        src, dst = os.path.join(common.SPEC, f), os.path.join(wd, f)
        if os.path.exists(dst) and open(src, "rb").read() == open(dst, "rb").read():
            continue
        tmp = "%s.%d.%d.tmp" % (dst, os.getpid(), threading.get_ident())
        shutil.copy(src, tmp)
        os.replace(tmp, dst)


def write_config(wd, c):
    copy_specs(wd)
    mod = "MC_" + c["name"]
    tpl = [dict(t, bad=set(t["bad"])) for t in c["tpl"]]
    plan = dict(c["plan"], bad=set(c["plan"]["bad"]))
    with open(os.path.join(wd, mod + ".tla"), "w") as f:
        f.write("---- MODULE %s ----\nEXTENDS PoolImplMC\n" % mod)
        f.write("TplDef == %s\n" % tla_val(tpl))
        f.write("PlanDef == %s\n" % tla_val(plan))
        f.write("SizeDef == %d\n" % c["size"])
        f.write("OpKindsDef == %s\nArmKindsDef == %s\nOutsDef == %s\nSizeValsDef == %s\nHKindsDef == %s\nStopValsDef == %s\n" % (
            tla_val(set(c["ops"])), tla_val(set(c["arms"])), tla_val(set(c["outs"])), tla_val(set(c["sizevals"])),
            tla_val(set(c["hkinds"])), tla_val(set(c["stopvals"]))))
        f.write("====\n")
    with open(os.path.join(wd, mod + ".cfg"), "w") as f:
        f.write("SPECIFICATION Spec\nCONSTANTS\n  Cls = \"%s\"\n  Size <- SizeDef\n  Tpl <- TplDef\n  Plan <- PlanDef\n  MaxOps = %d\n  NH = %d\n  MaxReq = 0\n  MaxTasks = 0\n"
                % (c["cls"], c["maxops"], c["nh"]))
        f.write("  OpKinds <- OpKindsDef\n  ArmKinds <- ArmKindsDef\n  Outs <- OutsDef\n  SizeVals <- SizeValsDef\n  HKinds <- HKindsDef\n"
                "  StopVals <- StopValsDef\n  MaxCancelLen = %d\n  Mode = \"%s\"\n  SimDepth = %d\n" % (c["maxcancel"], c["mode"], c["depth"]))
        if c["mode"] == "bfs":
            f.write("VIEW View\n")
        for i in range(1, 16):
            f.write("INVARIANT C%02d_OK\n" % i)
        f.write("INVARIANT RegistriesDisjoint\nINVARIANT SlotAccounting\nINVARIANT RefinesSlotAccounting\nINVARIANT TerminalOK\nINVARIANT KernelOK\nINVARIANT PrintLeaf\nCONSTRAINT DepthBound\nCHECK_DEADLOCK FALSE\n")
    return mod


def conv_op(op, c):
    op = dict(op)
    if op["o"] == "spawn":
        t = op.pop("t")
        if c["cls"] == "SimpleTaskPool":
            op["num"] = c["tpl"][t - 1]["num"]
        else:
            op["t"] = t - 1
    if "ids" in op:
        op["ids"] = list(op["ids"])
    if "names" in op:
        op["names"] = list(op["names"])
    op.pop("r", None)
    return op


def harness_cfg(c):
    if c["cls"] == "SimpleTaskPool":
        p = c["plan"]
        return {"cls": c["cls"], "size": c["size"],
                "simple": {"imm": p["imm"], "onc": p["onc"], "ecb": p["ecb"], "ccb": p["ccb"], "bad": list(p["bad"]), "shape": len(c["name"]) % 4}}
    reqs = []
    for n, t in enumerate(c["tpl"]):
        # the argument shape (no args / one positional / two positionals + a keyword) is invisible to the model
        reqs.append({"kind": t["kind"], "num": t["num"], "nc": t["nc"], "gname": t["gname"] or None, "imm": t["imm"],
                     "onc": t["onc"], "ecb": t["ecb"], "ccb": t["ccb"], "bad": list(t["bad"]), "notcoro": t["notcoro"],
                     "shape": (n + len(c["name"])) % 4})
    return {"cls": c["cls"], "size": c["size"], "reqs": reqs}


def to_schedule(hist, c):
    cmds = []
    for h in hist:
        k = h["c"]
        if k == "step":
            cmds.append({"c": "step"})
        elif k == "end":
            cmds.append({"c": "end", "o": h["o"]})
        elif k == "op":
            cmds.append({"c": "op", "op": conv_op(h["op"], c)})
        elif k == "arm":
            cmds.append({"c": "arm", "pt": h["pt"], "op": conv_op(h["op"], c)})
    cmds.append({"c": "drain"})
    if c["size"] != 0:
        cmds.append({"c": "probe", "k": 2 if c["size"] in (-1, 1) else c["size"]})
    return {"cfg": harness_cfg(c), "cmds": cmds, "conf": c["name"]}


_INV = re.compile(r"Invariant (\w+) is violated")


def run_config(c, wd, log, seed=0, timeout=3000, workers=None):
    mod = write_config(wd, c)
    t0 = time.time()
    sim = None
    if c["mode"] == "sim":
        sim = "num=%d" % c["num"]
    rc, out = common.tlc(mod, mod + ".cfg", wd_spec(wd), workers=workers or common.NCPU, timeout=timeout, simulate=sim,
                         depth=c["depth"] if sim else None, extra=(["-seed", str(seed + 1)] if sim else []))
    hists = common.parse_printed_json(out, "SCHED")
    states, trans = common.tlc_stats(out)
    if sim:
        m = None
        for m in re.finditer(r"Progress: (\d+) states checked, (\d+) traces generated", out):
            pass
        if m:
            states = trans = int(m.group(1))
    viol = _INV.findall(out)
    ok = ("Model checking completed. No error has been found." in out) or (sim and "Error" not in out.replace("Errors: 0", ""))
    info = {"config": c["name"], "mode": c["mode"], "cls": c["cls"], "size": c["size"], "requests": [(t["kind"], t["num"]) for t in c["tpl"]],
            "ops": c["ops"], "arm_points": c["arms"], "max_ops": c["maxops"], "states": states, "transitions": trans,
            "behaviours_printed": len(hists), "wall_s": round(time.time() - t0, 1), "completed": bool(ok), "violated": viol}
    if not ok and not viol:
        with open(os.path.join(wd, mod + ".out"), "w") as f:
            f.write(out)
        raise common.MachineryError("TLC failed on %s: see %s\n%s" % (mod, os.path.join(wd, mod + ".out"), out[-1500:]))
    if viol:
        with open(os.path.join(wd, mod + ".counterexample.txt"), "w") as f:
            f.write(out)
        info["counterexample"] = os.path.join(wd, mod + ".counterexample.txt")
    log("TLC %s %-18s %8d states %9d transitions %6d behaviours %6.1fs %s" % (
        c["mode"], c["name"], states, trans, len(hists), time.time() - t0, ("VIOLATED " + ",".join(viol)) if viol else ""))
    scheds = [to_schedule(h["hist"], c) for h in hists]
    return info, scheds


def wd_spec(wd):
    return wd


# tlc() runs in common.SPEC by default: run it in the work directory instead
_orig_tlc = common.tlc


def _tlc_in(module, cfg, wd, **kw):
    import subprocess
    meta = os.path.join(wd, "meta-%s" % module)
    cmd = ["tlc", "-workers", str(kw.get("workers", common.NCPU)), "-metadir", meta, "-noGenerateSpecTE", "-config", cfg]
    if kw.get("simulate"):
        cmd += ["-simulate", kw["simulate"]]
    if kw.get("depth"):
        cmd += ["-depth", str(kw["depth"])]
    cmd += list(kw.get("extra", ())) + [module + ".tla"]
    env = dict(os.environ)
    # in-memory FIFO queue: TLC's disk queue cannot serialise the lazily evaluated function values our states hold
    env["JAVA_TOOL_OPTIONS"] = (env.get("JAVA_TOOL_OPTIONS", "") + " -Dtlc2.tool.queue.IStateQueue=MemStateQueue").strip()
    try:
        p = subprocess.run(cmd, cwd=wd, env=env, stdout=subprocess.PIPE, stderr=subprocess.STDOUT, timeout=kw.get("timeout", 1800), text=True)
        rc, out = p.returncode, p.stdout
    except subprocess.TimeoutExpired as ex:
        out = ex.stdout if isinstance(ex.stdout, str) else (ex.stdout or b"").decode("utf8", "replace")
        subprocess.run(["pkill", "-f", meta], check=False)
        rc = 124
    shutil.rmtree(meta, ignore_errors=True)
    return rc, out


common.tlc = lambda module, cfg, wd, **kw: (_tlc_in(module, cfg, wd, **kw) if module.startswith("MC_") else _orig_tlc(module, cfg, wd, **kw))

_RESULTS = {}


def configs(tier):
    import l1configs
    return l1configs.configs(tier)


def model_check(tier, seed, wd, log):
    runs, violations, scheds = [], [], []
    mwd = os.path.join(wd, "l1")
    os.makedirs(mwd, exist_ok=True)
    # exhaustive configurations run four at a time (4 TLC workers each: most are dominated by JVM start-up); the simulation
    # configurations keep all workers to themselves (their "num" is per worker)
    from multiprocessing.pool import ThreadPool
    cs = configs(tier)
    bfs = [c for c in cs if c["mode"] != "sim"]
    with ThreadPool(4) as tp:
        res = dict(zip([c["name"] for c in bfs], tp.map(lambda c: run_config(c, mwd, log, seed, workers=max(1, common.NCPU // 4)), bfs)))
    for c in cs:
        info, ss = res[c["name"]] if c["name"] in res else run_config(c, mwd, log, seed)
        runs.append(info)
        for inv in info["violated"]:
            if inv.endswith("_OK"):
                violations.append({"c": inv[:3] + ".model", "kf": "", "at": 0, "ent": -1, "driver": "tlc-mc:" + c["name"],
                                   "replay": info.get("counterexample", "-")})
            else:
                violations.append({"c": "C02.model", "kf": "", "at": 0, "ent": -1, "driver": "tlc-mc:%s:%s" % (c["name"], inv),
                                   "replay": info.get("counterexample", "-")})
        scheds += ss
    _RESULTS[(tier, seed)] = scheds
    return {"runs": runs, "violations": violations}


def generate(tier, seed, wd, log):
    scheds = _RESULTS.get((tier, seed), [])
    # de-duplicate, cap per tier
    seen, out = set(), []
    for s in scheds:
        k = json.dumps([s["cfg"], [c for c in s["cmds"] if c["c"] != "end"]], sort_keys=True)
        if k in seen:
            continue
        seen.add(k)
        out.append(s)
    cap = {"quick": 9000, "thorough": 200000}[tier]
    out.sort(key=lambda s: json.dumps([s["cfg"], s["cmds"]], sort_keys=True))      # (TLC prints in a worker-dependent order)
    if len(out) > cap:
        import random
        rng = random.Random(seed)
        out = rng.sample(out, cap)
    log("TLC produced %d distinct behaviours for replay (%d before de-duplication)" % (len(out), len(scheds)))
    return out


# ---- code -> PoolImpl: follow executed schedules in the model (spec/PoolFollow.tla) ---------------------------------------
def l1_config_of(hcfg):
    """The PoolImpl constants that correspond to a harness pool configuration."""
    def plan(p):
        sy = lambda k: "sync" if k in ("sfut", "sobj", "swrap") else "async" if k == "amark" else k      # noqa: E731  (a plain callback that returns a future is a plain callback)
        return {"imm": bool(p.get("imm", False)), "onc": p.get("onc", "prop"), "ecb": sy(p.get("ecb", "none")), "ccb": sy(p.get("ccb", "none")),
                "bad": set(p.get("bad", []))}
    if hcfg["cls"] == "SimpleTaskPool":
        tpl = [dict(DEF_TPL, kind="start", num=n, bad=set()) for n in range(4)]
        pl = plan(hcfg.get("simple", {}))
    else:
        tpl = []
        for t in hcfg["reqs"]:
            # (in the model "" stands for "no explicit name": an explicit empty name is just another explicit name there)
            d = dict(DEF_TPL, kind=t["kind"], num=t["num"], nc=t.get("nc", 1), gname="<empty>" if t.get("gname") == "" else (t.get("gname") or ""),
                     notcoro=bool(t.get("notcoro", False)))
            d.update(plan(t))
            tpl.append(d)
        pl = dict(DEF_PLAN, bad=set())
    return {"cls": hcfg["cls"], "size": hcfg.get("size", -1), "tpl": tpl, "plan": pl}


def follow(groups, wd, log):
    """groups: [(harness cfg, [xlog, ...])] -> (per-run results aligned with the flattened input, states)."""
    import concurrent.futures as cf
    import subprocess
    fwd = os.path.join(wd, "follow")
    os.makedirs(fwd, exist_ok=True)
    for f in ("PoolImpl.tla", "PoolFollow.tla"):
        shutil.copy(os.path.join(common.SPEC, f), os.path.join(fwd, f))

    def one(arg):
        n, (hcfg, xlogs) = arg
        c = l1_config_of(hcfg)
        mod = "FW_%d" % n
        with open(os.path.join(fwd, mod + ".tla"), "w") as f:
            f.write("---- MODULE %s ----\nEXTENDS PoolFollow\nTplDef == %s\nPlanDef == %s\nSizeDef == %d\nEmptyDef == {}\n====\n"
                    % (mod, tla_val(c["tpl"]), tla_val(c["plan"]), c["size"]))
        with open(os.path.join(fwd, mod + ".cfg"), "w") as f:
            f.write("SPECIFICATION FSpec\nCONSTANTS\n  Cls = \"%s\"\n  Size <- SizeDef\n  Tpl <- TplDef\n  Plan <- PlanDef\n  MaxOps = 0\n  NH = 8\n"
                    "  OpKinds <- EmptyDef\n  ArmKinds <- EmptyDef\n  MaxReq = 14\n  MaxTasks = 40\nINVARIANT Report\nCHECK_DEADLOCK FALSE\n" % c["cls"])
        path = os.path.join(fwd, mod + ".json")
        with open(path, "w") as f:
            json.dump(xlogs, f, separators=(",", ":"))
        env = dict(os.environ, TRACE_FILE=path)
        env["JAVA_TOOL_OPTIONS"] = (env.get("JAVA_TOOL_OPTIONS", "") + " -Dtlc2.tool.queue.IStateQueue=MemStateQueue").strip()
        try:
            p = subprocess.run(["tlc", "-workers", "2", "-metadir", os.path.join(fwd, "meta-" + mod), "-noGenerateSpecTE", "-config", mod + ".cfg", mod + ".tla"],
                               cwd=fwd, env=env, stdout=subprocess.PIPE, stderr=subprocess.STDOUT, text=True, timeout=1800)
            stdout = p.stdout
        except subprocess.TimeoutExpired:
            stdout = ""
        shutil.rmtree(os.path.join(fwd, "meta-" + mod), ignore_errors=True)
        try:
            res = {v["tid"]: v for v in common.parse_printed_json(stdout, "FOLLOW")}
        except common.MachineryError:
            res = {}
        if "No error has been found" not in stdout or len(res) < len(xlogs):
            open(os.path.join(fwd, mod + ".out"), "w").write(stdout)
            # a run the model cannot follow at all counts as drift (bad = -1), never as a failure of the check
            return [res.get(i + 1, {"tid": i + 1, "n": 0, "bad": -1}) for i in range(len(xlogs))], 0
        os.remove(path)
        return [res[i + 1] for i in range(len(xlogs))], common.tlc_stats(stdout)[0]

    out, states = [], 0
    with cf.ThreadPoolExecutor(max_workers=max(2, common.NCPU // 2)) as ex:
        for rs, st in ex.map(one, list(enumerate(groups))):
            out += rs
            states += st
    return out, states
