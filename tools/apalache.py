"""The unbounded part: Apalache discharges the inductive invariants of spec/SlotAccounting.tla (every pool size) and
spec/QueueAccounting.tla (any number of items/consumers/joiners); the TLA+ proof system (tlapm) checks the deductive
proofs of the same invariants in spec/proofs/SlotProof.tla and spec/proofs/QueueProof.tla."""
from __future__ import annotations

import os
import shutil
import subprocess
import time

import common

OBLIGATIONS = [
    ("Init => IndInv", ["--init=Init", "--inv=IndInv", "--length=0"]),
    ("IndInv /\\ Next => IndInv'", ["--init=IndInit", "--inv=IndInv", "--length=1"]),
    ("IndInv => Capacity", ["--init=IndInit", "--inv=Capacity", "--length=0"]),
]


QUEUE_OBLIGATIONS = [
    ("Init => IndInv", ["--init=Init", "--inv=IndInv", "--length=0"]),
    ("IndInv /\\ Next => IndInv'", ["--init=IndInit", "--inv=IndInv", "--length=1"]),
    ("IndInv => JoinExact", ["--init=IndInit", "--inv=JoinExact", "--length=0"]),
]


def discharge(wd, log, module="SlotAccounting", obligations=None, cinit=("--cinit=ConstInit",), what="for every size N"):
    obligations = OBLIGATIONS if obligations is None else obligations
    d = os.path.join(wd, "apalache")
    os.makedirs(d, exist_ok=True)
    shutil.copy(os.path.join(common.SPEC, module + ".tla"), d)
    res = {"obligations": len(obligations), "discharged": 0, "refuted": [], "errors": [], "details": [],
           "checker_cmd": "apalache-mc check %s <--init/--inv/--length per obligation> %s.tla" % (" ".join(cinit), module)}
    if shutil.which("apalache-mc") is None:
        res["errors"].append("apalache-mc not found")
        return res
    for name, args in obligations:
        t0 = time.time()
        try:
            os.makedirs(os.path.join(d, "tmp"), exist_ok=True)      # (the wrapper makes its SANY directory under $TMPDIR)
            p = subprocess.run(["apalache-mc", "check"] + list(cinit) + args + ["--out-dir=" + os.path.join(d, "out"), module + ".tla"],
                               cwd=d, stdout=subprocess.PIPE, stderr=subprocess.STDOUT, text=True, timeout=300,
                               env=dict(os.environ, TMPDIR=os.path.join(d, "tmp")))
            out = p.stdout
        except subprocess.TimeoutExpired:
            res["errors"].append(name + ": timeout")
            continue
        if "The outcome is: NoError" in out:
            res["discharged"] += 1
            res["details"].append({"obligation": name, "outcome": "NoError", "secs": round(time.time() - t0, 1)})
        elif "The outcome is: Error" in out or "violat" in out.lower():
            res["refuted"].append(name)
            res["details"].append({"obligation": name, "outcome": "Error", "secs": round(time.time() - t0, 1)})
        else:
            res["errors"].append(name + ": " + out[-200:])
    shutil.rmtree(os.path.join(d, "out"), ignore_errors=True)
    shutil.rmtree(os.path.join(d, "tmp"), ignore_errors=True)
    log("Apalache: %d of %d obligations of %s discharged (%s)%s" % (
        res["discharged"], res["obligations"], module, what, (" REFUTED: %s" % res["refuted"]) if res["refuted"] else ""))
    return res


def tlaps(wd, log, proof_module, needs):
    """Check the TLAPS proof  Spec => [](IndInv /\\ ...)  of a lemma module.  A failure is reported, never a verdict."""
    import re
    d = os.path.join(wd, "tlaps-" + proof_module)
    shutil.rmtree(d, ignore_errors=True)
    os.makedirs(d)
    shutil.copy(os.path.join(common.SPEC, "proofs", proof_module + ".tla"), d)
    for m in needs:
        shutil.copy(os.path.join(common.SPEC, m + ".tla"), d)
    res = {"module": proof_module, "checker_cmd": "tlapm %s.tla" % proof_module, "proved": False, "obligations": 0}
    if shutil.which("tlapm") is None:
        res["error"] = "tlapm not found"
        return res
    t0 = time.time()
    try:
        p = subprocess.run(["tlapm", proof_module + ".tla"], cwd=d, stdout=subprocess.PIPE, stderr=subprocess.STDOUT, text=True, timeout=600)
        out = p.stdout
    except subprocess.TimeoutExpired:
        res["error"] = "timeout"
        return res
    m = re.search(r"All (\d+) obligations? proved", out)
    if m:
        res.update(proved=True, obligations=int(m.group(1)))
    else:
        res["error"] = out[-300:]
    res["secs"] = round(time.time() - t0, 1)
    shutil.rmtree(os.path.join(d, ".tlacache"), ignore_errors=True)
    log("TLAPS: %s - %s" % (proof_module, ("all %d proof obligations checked" % res["obligations"]) if res["proved"] else "NOT proved"))
    return res
