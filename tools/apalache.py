"""The unbounded part: Apalache discharges the inductive invariant of spec/SlotAccounting.tla for every pool size."""
from __future__ import annotations

import os
import shutil
import subprocess
import time

import common

OBLIGATIONS = [
    ("Init => IndInv", ["--init=Init", "--inv=IndInv", "--length=0"]),
    ("IndInv /\\ Next => IndInv'", ["--init=IndInit", "--inv=IndInv", "--length=1"]),
    ("IndInv => Capacity", ["--init=IndInit", "--inv=Capacity", "--length=0"]),
]


def discharge(wd, log):
    d = os.path.join(wd, "apalache")
    os.makedirs(d, exist_ok=True)
    shutil.copy(os.path.join(common.SPEC, "SlotAccounting.tla"), d)
    res = {"obligations": len(OBLIGATIONS), "discharged": 0, "refuted": [], "errors": [], "details": [],
           "checker_cmd": "apalache-mc check --cinit=ConstInit <--init/--inv/--length per obligation> SlotAccounting.tla"}
    if shutil.which("apalache-mc") is None:
        res["errors"].append("apalache-mc not found")
        return res
    for name, args in OBLIGATIONS:
        t0 = time.time()
        try:
            p = subprocess.run(["apalache-mc", "check", "--cinit=ConstInit"] + args + ["--out-dir=" + os.path.join(d, "out"), "SlotAccounting.tla"],
                               cwd=d, stdout=subprocess.PIPE, stderr=subprocess.STDOUT, text=True, timeout=300)
            out = p.stdout
        except subprocess.TimeoutExpired:
            res["errors"].append(name + ": timeout")
            continue
        if "The outcome is: NoError" in out:
            res["discharged"] += 1
            res["details"].append({"obligation": name, "outcome": "NoError", "secs": round(time.time() - t0, 1)})
        elif "The outcome is: Error" in out or "violat" in out.lower():
            res["refuted"].append(name)
            res["details"].append({"obligation": name, "outcome": "Error", "secs": round(time.time() - t0, 1)})
        else:
            res["errors"].append(name + ": " + out[-200:])
    shutil.rmtree(os.path.join(d, "out"), ignore_errors=True)
    log("Apalache: %d of %d obligations of SlotAccounting discharged (for every size N)%s" % (
        res["discharged"], res["obligations"], (" REFUTED: %s" % res["refuted"]) if res["refuted"] else ""))
    return res
