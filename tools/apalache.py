"""The unbounded part: Apalache discharges the inductive invariant of spec/SlotAccounting.tla for every pool size."""
from __future__ import annotations

import os
import shutil
import subprocess
import time

import common

OBLIGATIONS = [
    ("Init => IndInv", ["--init=Init", "--inv=IndInv", "--length=0"]),
    ("IndInv /\\ Next => IndInv'", ["--init=IndInit", "--inv=IndInv", "--length=1"]),
    ("IndInv => Capacity", ["--init=IndInit", "--inv=Capacity", "--length=0"]),
]


QUEUE_OBLIGATIONS = [
    ("Init => IndInv", ["--init=Init", "--inv=IndInv", "--length=0"]),
    ("IndInv /\\ Next => IndInv'", ["--init=IndInit", "--inv=IndInv", "--length=1"]),
    ("IndInv => JoinExact", ["--init=IndInit", "--inv=JoinExact", "--length=0"]),
]


def discharge(wd, log, module="SlotAccounting", obligations=None, cinit=("--cinit=ConstInit",), what="for every size N"):
    obligations = OBLIGATIONS if obligations is None else obligations
    d = os.path.join(wd, "apalache")
    os.makedirs(d, exist_ok=True)
    shutil.copy(os.path.join(common.SPEC, module + ".tla"), d)
    res = {"obligations": len(obligations), "discharged": 0, "refuted": [], "errors": [], "details": [],
           "checker_cmd": "apalache-mc check %s <--init/--inv/--length per obligation> %s.tla" % (" ".join(cinit), module)}
    if shutil.which("apalache-mc") is None:
        res["errors"].append("apalache-mc not found")
        return res
    for name, args in obligations:
        t0 = time.time()
        try:
            p = subprocess.run(["apalache-mc", "check"] + list(cinit) + args + ["--out-dir=" + os.path.join(d, "out"), module + ".tla"],
                               cwd=d, stdout=subprocess.PIPE, stderr=subprocess.STDOUT, text=True, timeout=300)
            out = p.stdout
        except subprocess.TimeoutExpired:
            res["errors"].append(name + ": timeout")
            continue
        if "The outcome is: NoError" in out:
            res["discharged"] += 1
            res["details"].append({"obligation": name, "outcome": "NoError", "secs": round(time.time() - t0, 1)})
        elif "The outcome is: Error" in out or "violat" in out.lower():
            res["refuted"].append(name)
            res["details"].append({"obligation": name, "outcome": "Error", "secs": round(time.time() - t0, 1)})
        else:
            res["errors"].append(name + ": " + out[-200:])
    shutil.rmtree(os.path.join(d, "out"), ignore_errors=True)
    log("Apalache: %d of %d obligations of %s discharged (%s)%s" % (
        res["discharged"], res["obligations"], module, what, (" REFUTED: %s" % res["refuted"]) if res["refuted"] else ""))
    return res
