"""Seeded random schedules (a secondary driver; the primary one is TLC on spec/PoolImpl.tla).

Used to shake the monitor and the harness with wide, shallowly structured input: random pool
configurations, request templates, operations in gaps and armed at user-code points."""
from __future__ import annotations

import random

KINDS_TP = ["apply", "apply", "map", "starmap", "doublestarmap"]
CB = ["none", "none", "sync", "async", "sraise", "araise", "sfut", "sobj", "swrap", "amark"]
ONC = ["prop", "prop", "prop", "swallow", "exc", "again"]
POINTS = ["begin", "fin", "canc", "ccb", "ecb", "call", "pull"]


def rand_plan(rng, calm):
    return {
        "imm": rng.random() < 0.15,
        "onc": "prop" if calm else rng.choice(ONC),
        "ecb": rng.choice(["none", "sync", "async"]) if calm else rng.choice(CB),
        "ccb": rng.choice(["none", "sync", "async"]) if calm else rng.choice(CB),
        "shape": rng.choice([0, 1, 2, 3]),
    }


def rand_template(rng, calm, r):
    t = rand_plan(rng, calm)
    t["kind"] = rng.choice(KINDS_TP)
    t["num"] = rng.choice([0, 1, 1, 2, 2, 3, 4])
    t["nc"] = rng.choice([1, 1, 2, 3])
    t["gname"] = rng.choice([None, None, None, "grp-%d %%s x" % r, "shared", ""])      # ("" is a legal explicit group name)
    t["bad"] = sorted({rng.randrange(0, max(1, t["num"])) for _ in range(rng.choice([0, 0, 0, 1, 2]))}) if not calm else []
    if rng.random() < 0.04:
        t["notcoro"] = True
    # (drawn from a generator of their own, so that the schedules of earlier seeds stay what they were)
    r2 = __import__("random").Random(rng.random())
    if t["gname"] is not None and r2.random() < 0.3:
        t["partial"] = True
    if r2.random() < 0.2:
        t["method"] = True
    if t["kind"] in ("starmap", "doublestarmap") and r2.random() < 0.3:
        t["void"] = r2.randrange(0, t["num"] + 1)       # an element that cannot be unpacked, before element number ...
    if t["kind"] == "apply" and not calm and r2.random() < 0.05:
        t["mismatch"] = True
    if t["kind"] != "apply" and rng.random() < 0.04:
        t["nc"] = rng.choice([0, -1])
    return t


def rand_op(rng, cfg, nreq, spawned, simple, allow_size):
    x = rng.random()
    if x < 0.22:
        if simple:
            return {"o": "spawn", "num": rng.choice([0, 1, 2, 3])}
        return {"o": "spawn", "t": rng.randrange(nreq)}
    if x < 0.42:
        return {"o": "release", "id": rng.randrange(0, 8), "out": rng.choice(["ret", "ret", "ret", "exc", "again", "retexc"])}
    if x < 0.50:
        return {"o": "release_cb", "id": rng.randrange(0, 8), "which": rng.choice(["ccb", "ecb"])}
    if x < 0.60:
        k = rng.choice([1, 1, 1, 2, 3])
        return {"o": "cancel", "ids": [rng.randrange(0, 9) for _ in range(k)]}
    if x < 0.68:
        return {"o": "cancel_group", "r": rng.randrange(0, 4)}
    if x < 0.71:
        return {"o": "cancel_all"}
    if x < 0.76:
        if simple:
            return rng.choice([{"o": "stop", "n": rng.choice([-1, 0, 1, 1, 2, 3, 5])}, {"o": "stop_all"}])
        return {"o": "get_ids", "names": [rng.randrange(0, 4) for _ in range(rng.choice([1, 1, 2]))]}
    if x < 0.80:
        return {"o": "lock"}
    if x < 0.84:
        return {"o": "unlock"}
    if x < 0.90:
        return {"o": "hstart", "kind": "flush", "re": rng.random() < 0.4}
    if x < 0.93:
        return {"o": "hstart", "kind": "until"}
    if x < 0.955:
        return {"o": "hstart", "kind": "gac", "re": rng.random() < 0.4}
    if x < 0.97 and allow_size:
        return {"o": "set_size", "n": rng.choice([-1, 0, 1, 2, 3, 4])}
    if x < 0.975:
        return {"o": "get_ids", "names": ["nosuch"]}
    if x < 0.985:
        return {"o": "hcancel", "h": rng.randrange(0, 3)}      # cancel the task awaiting flush / gather_and_close / until_closed
    return {"o": "cancel", "ids": []} if rng.random() < 0.3 else {"o": "unlock"}


def make(seed, calm=False, allow_size=False, length=None, cfgseed=None):
    """cfgseed: draw the pool configuration from this (small) seed space, so that many schedules share a configuration
    and can be followed in the implementation-level specification in one TLC run (spec/PoolFollow.tla)."""
    rng = random.Random(seed)
    crng = rng if cfgseed is None else random.Random("cfg-%s-%s" % (cfgseed, calm))
    simple = crng.random() < 0.3
    size = crng.choice([0, 1, 1, 2, 2, 3, -1])
    nreq = crng.choice([1, 2, 2, 3])
    cfg = {"cls": "SimpleTaskPool" if simple else "TaskPool", "size": size}
    if simple:
        cfg["simple"] = rand_plan(crng, calm)
        if not calm and crng.random() < 0.2:
            cfg["simple"]["bad"] = [crng.randrange(0, 4)]
        cfg["reqs"] = []
    else:
        cfg["reqs"] = [rand_template(crng, calm, r) for r in range(nreq)]
    n = length or rng.choice([6, 10, 16, 24, 40])
    cmds = []
    counter = iter(range(10 ** 6))
    closing = False
    def ok(op):
        nonlocal closing
        if op["o"] == "hstart" and op["kind"] == "gac":
            if closing:
                return False        # overlapping gather_and_close calls: outside C08
            closing = True
        if op["o"] == "unlock" and closing:
            return False            # unlock while closing: misuse, outside every property
        return True
    for _ in range(n):
        y = rng.random()
        if y < 0.40:
            cmds.append({"c": "step"})
        elif y < 0.50:
            cmds.append({"c": "idle"})
        elif y < 0.58:
            pt = rng.choice(POINTS)
            op = rand_op(rng, cfg, nreq, counter, simple, allow_size)
            if op["o"] in ("cancel_group", "cancel_all") and pt in ("call", "pull"):
                continue        # outside C07's quantifier: re-entrant cancellation from the spawner's own stack
            if ok(op):
                cmds.append({"c": "arm", "pt": pt + ":*", "op": op})
        else:
            op = rand_op(rng, cfg, nreq, counter, simple, allow_size)
            if ok(op):
                cmds.append({"c": "op", "op": op})
    cmds.append({"c": "drain"})
    if rng.random() < 0.7:
        cmds.append({"c": "probe", "k": rng.choice([1, 2, 3, 4])})
    return {"cfg": cfg, "cmds": cmds, "seed": seed}


def make_multi(seed):
    """Two or three pools of either class in one loop, operated in an interleaved way (C11: independent numbering,
    distinct names of unnamed pools; every other property per pool)."""
    rng = random.Random(seed)
    npools = rng.choice([2, 2, 3])
    pools, simple = [], []
    for p in range(npools):
        sp = rng.random() < 0.4
        simple.append(sp)
        cfg = {"cls": "SimpleTaskPool" if sp else "TaskPool", "size": rng.choice([1, 2, 3, -1])}
        if rng.random() < 0.3:
            cfg["name"] = ""            # an empty name counts as "unnamed"
        if sp:
            cfg["simple"] = rand_plan(rng, True)
            cfg["reqs"] = []
        else:
            cfg["reqs"] = [rand_template(rng, True, r) for r in range(2)]
            for t in cfg["reqs"]:
                t["gname"] = None
                t.pop("notcoro", None)
                t["nc"] = max(1, t["nc"])
        pools.append(cfg)
    cmds = []
    counter = iter(range(10 ** 6))
    for _ in range(rng.choice([10, 18, 30])):
        y = rng.random()
        if y < 0.45:
            cmds.append({"c": "step"})
        elif y < 0.55:
            cmds.append({"c": "idle"})
        else:
            p = rng.randrange(npools)
            op = rand_op(rng, pools[p], 2, counter, simple[p], False)
            if op["o"] == "hstart" and op["kind"] == "gac":
                continue
            if op["o"] == "unlock":
                continue
            op["p"] = p
            cmds.append({"c": "op", "op": op})
    cmds.append({"c": "drain"})
    if rng.random() < 0.5:
        # close one pool for good, then create another unnamed one next to the survivors and use it
        victim = rng.randrange(npools)
        cmds += [{"c": "op", "op": {"o": "hstart", "kind": "gac", "re": True, "p": victim}}, {"c": "drain"}]
        newcfg = {"cls": "TaskPool", "size": 2, "reqs": [dict(rand_template(rng, True, 0), gname=None, nc=1, kind="apply", num=2)]}
        newcfg["reqs"][0].pop("notcoro", None)
        cmds += [{"c": "newpool", "cfg": newcfg}, {"c": "op", "op": {"o": "spawn", "t": 0, "p": npools}}, {"c": "drain"}]
    return {"cfg": {"pools": pools}, "cmds": cmds, "seed": seed}
