"""The command surface of a pool class, by reflection at check time, and value domains per parameter.

Used to (a) emit the `Cmds` constant of spec/CtlCommands.tla, from which TLC enumerates the command-line
"programs" (command x subset of options x one value per parameter), and (b) turn each enumerated program into a
concrete command line plus the equivalent direct method call on the twin pool."""
from __future__ import annotations

import functools
import inspect
import os
import sys

HERE = os.path.dirname(os.path.abspath(__file__))
sys.path.insert(0, os.path.join(os.path.dirname(HERE), "harness"))

P = lambda path: {"$path": path}        # noqa: E731
L = lambda lit: {"$lit": lit}           # noqa: E731

INTS = [("-1", -1), ("0", 0), ("1", 1), ("2", 2), ("7", 7), ("03", 3)]
DOMAINS = {
    "func": [("ctlfuncs.work", P("ctlfuncs.work")), ("ctlfuncs.quick", P("ctlfuncs.quick")),
             ("ctlfuncs.plain", P("ctlfuncs.plain")), ("nosuch.module.f", P("nosuch.module.f")),
             ("ctlfuncs._quiet", P("ctlfuncs._quiet")), ("ctlfuncs.decorated", P("ctlfuncs.decorated")),
             ("ctlfuncs.holder.run", P("ctlfuncs.holder.run"))],
    "end_callback": [("ctlfuncs.cb", P("ctlfuncs.cb"))],
    "cancel_callback": [("ctlfuncs.cb", P("ctlfuncs.cb"))],
    "args": [("()", L("()")), ("(1,2)", L("(1,2)")), ("[3]", L("[3]")), ("('null','true')", L("('null','true')"))],
    "kwargs": [("{}", L("{}")), ("{'a':1}", L("{'a':1}")), ("{'false':'null'}", L("{'false':'null'}"))],
    "items": [("[1,2]", L("[1,2]")), ("()", L("()")), ("{'k':None}", L("{'k':None}"))],
    "new_ratio": [("0.25", 0.25), ("2", 2.0), ("-1.5", -1.5), ("1e3", 1000.0)],
    "function": [("fn", "fn")], "self_": INTS, "flag": [("", True)],
    "arg_iter": [("[1,2]", L("[1,2]")), ("[]", L("[]")), ("(5,)", L("(5,)"))],
    "args_iter": [("[(1,2),(3,4)]", L("[(1,2),(3,4)]")), ("[]", L("[]"))],
    "kwargs_iter": [("[{'a':1},{'a':2}]", L("[{'a':1},{'a':2}]")), ("[]", L("[]"))],
    "num": INTS, "num_concurrent": [("0", 0), ("1", 1), ("2", 2)], "value": INTS, "number": INTS,
    "group_name": [("g1", "g1"), ("gx", "gx"), ("a\tb", "a\tb"), ("e\u0301\u212b", "e\u0301\u212b"),      # (not in NFC form)
                   ("None", "None"), ("my_grp-100%s", "my_grp-100%s"), ("", ""), ("g;lock", "g;lock")],          # (the text None is a name like any other)
    "msg": [("hello", "hello"), ("None", "None"), ("", "")], "label": [("lbl", "lbl")],
    "f": INTS, "el": [("kg", "kg")], "level": INTS, "limit": INTS,
    "task_ids": [([], []), (["0"], [0]), (["0", "1"], [0, 1]), (["5"], [5]), (["0", "0"], [0, 0])],
    "group_names": [(["g1"], ["g1"]), (["g1", "start-group-0"], ["g1", "start-group-0"]), (["nosuch"], ["nosuch"]),
                    ([], []), (["", "g1"], ["", "g1"])],
    "return_exceptions": [("", True)],
}


def dashed(name):
    return name.replace("_", "-")


def command_table(cls):
    """[{name (dashed), member, kind: method|prop, params: [{name, kind: pos|opt|varpos|flag}], settable}]"""
    out = []
    for name, member in inspect.getmembers(cls):
        if name.startswith("_"):
            continue
        if inspect.isfunction(member):
            params = []
            for p in inspect.signature(member).parameters.values():
                if p.name == "self":
                    continue
                if p.kind == p.VAR_POSITIONAL:
                    k = "varpos"
                elif p.default is p.empty:
                    k = "pos"
                elif str(p.annotation) in ("bool", "<class 'bool'>"):
                    k = "flag"
                else:
                    k = "opt"
                params.append({"name": p.name, "kind": k})
            out.append({"name": dashed(name), "member": name, "kind": "method", "params": params})
        elif isinstance(member, functools.cached_property):
            out.append({"name": dashed(name), "member": name, "kind": "prop", "params": [], "settable": False})
        elif isinstance(member, property):
            c = {"name": dashed(name), "member": name, "kind": "prop", "params": [], "settable": member.fset is not None}
            if member.fset is not None:
                c["params"] = [{"name": list(inspect.signature(member.fset).parameters)[1], "kind": "propval"}]
            out.append(c)
    return out


def domain(pname):
    return DOMAINS.get(pname, [("1", 1)])


def build(cmd, choice):
    """choice: {param name: index into its domain} for the parameters that are given.
    Returns (command line, call spec for the twin)."""
    words = [cmd["name"]]
    args, kwargs = [], {}
    opts = []
    longs = ["help"] + [dashed(q["name"]) for q in cmd["params"] if q["kind"] in ("opt", "flag")]

    def spelled(name, salt):
        """The long option as written on the line: now and then abbreviated to a unique prefix (argparse accepts those)."""
        d = dashed(name)
        if (len(d) + salt) % 5 != 0:
            return "--" + d
        for n in range(2, len(d)):
            if sum(1 for x in longs if x.startswith(d[:n])) == 1:
                return "--" + d[:n]
        return "--" + d
    for p in cmd["params"]:
        if p["name"] not in choice:
            continue
        text, val = domain(p["name"])[choice[p["name"]]]
        if text == "" and p["kind"] in ("pos", "propval"):
            text, val = domain(p["name"])[0]       # (an empty positional cannot be written on a command line: there is no quoting)
        if p["kind"] == "pos":
            words.append(text)
            args.append(val)
        elif p["kind"] == "varpos":
            words.extend(text)
            args.extend(val)
        elif p["kind"] == "propval":
            words.append(text)
            args.append(val)
        elif p["kind"] == "flag":
            opts.append(spelled(p["name"], len(choice)))
            kwargs[p["name"]] = True
        elif ((len(text) + len(cmd["name"]) + len(choice)) % 3 == 0 or "_" in text or text == "") and " " not in text:
            opts.append(spelled(p["name"], len(text)) + "=" + text)       # the --option=value form
            kwargs[p["name"]] = val
        else:
            opts.extend([spelled(p["name"], len(text) + 1), text])
            kwargs[p["name"]] = val
    line = " ".join(words + opts)
    if cmd["kind"] == "prop":
        call = {"kind": "set" if args else "get", "m": cmd["member"], "args": args}
    else:
        call = {"kind": "call", "m": cmd["member"], "args": args, "kwargs": kwargs}
    return line, call
