"""Evaluate seeded changes: for each /tmp/mut/<P>/MUTANT/<k> (or seeded/<id>) confirm it (tests pass, demo fails with
the change and passes without) in a scratch worktree and run the checks against that worktree (VERIF_REPO)."""
import json, os, subprocess, sys, shutil, time

VERIF = os.path.dirname(os.path.dirname(os.path.abspath(__file__)))

def sh(cmd, cwd=None, env=None, timeout=1800):
    e = dict(os.environ); e.update(env or {})
    p = subprocess.run(cmd, shell=True, cwd=cwd, env=e, stdout=subprocess.PIPE, stderr=subprocess.STDOUT, text=True, timeout=timeout)
    return p.returncode, p.stdout

def evaluate(mdir, props, wt):
    """mdir has patch.diff, demo.py ; wt = scratch worktree of /repo HEAD (clean)."""
    out = {"dir": mdir}
    env = {"PYTHONPATH": wt + "/src"}
    sh("git checkout -- . && git clean -fdq src tests", cwd=wt)
    rc0, o0 = sh("timeout 120 /venv/bin/python %s/demo.py" % mdir, cwd=wt, env=env)
    out["demo_clean_rc"] = rc0
    rc, o = sh("git apply %s/patch.diff" % mdir, cwd=wt)
    out["apply_rc"] = rc
    if rc != 0:
        out["error"] = o[-300:]; return out
    rc, o = sh("timeout 900 /venv/bin/python -m pytest -q -p no:cacheprovider 2>&1 | tail -1", cwd=wt, env=env)
    out["tests"] = o.strip()[-60:]
    rc1, o1 = sh("timeout 120 /venv/bin/python %s/demo.py" % mdir, cwd=wt, env=env)
    out["demo_mut_rc"] = rc1
    out["confirmed"] = (rc0 == 0 and rc1 != 0 and "112 passed" in out["tests"])
    det = {}
    for p in props:
        rc, o = sh("./check %s --tier quick" % p, cwd=VERIF, env={"VERIF_REPO": wt}, timeout=3600)
        lines = [l for l in o.splitlines() if l.startswith("VIOLATION") or "failing clause" in l or l.startswith("MACHINERY")]
        det[p] = {"rc": rc, "lines": lines[:4]}
    out["checks"] = det
    out["detected_by"] = sorted(p for p, d in det.items() if d["rc"] == 1)
    sh("git checkout -- . ", cwd=wt)
    return out

if __name__ == "__main__":
    wt = sys.argv[1]; props = sys.argv[2].split(","); mdirs = sys.argv[3:]
    for m in mdirs:
        t = time.time()
        r = evaluate(os.path.abspath(m), props, wt)
        r["wall_s"] = round(time.time() - t)
        print(json.dumps(r))
        sys.stdout.flush()
