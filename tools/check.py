"""Entry point of every registered check:  ./check <Cxx> [--tier quick|thorough] [--replay FILE]

exit 0  the property held on everything explored (possibly modulo listed known findings)
exit 1  + "VIOLATION property=<id> replay=<path>"  a violation the known-findings file does not list
exit 2  the machinery itself failed (never a verdict)
"""
from __future__ import annotations

import argparse
import json
import os
import sys
import time
import traceback

sys.path.insert(0, os.path.dirname(os.path.abspath(__file__)))
import common  # noqa: E402

KF_FILE = os.path.join(common.VERIF, "KNOWN_FINDINGS.txt")


def known_findings():
    """open findings: {property: {id: text}} ; fixed entries suppress nothing."""
    res = {}
    if not os.path.exists(KF_FILE):
        return res
    for line in open(KF_FILE):
        line = line.strip()
        if not line.startswith("open:"):
            continue
        fields = dict(x.split("=", 1) for x in line.split()[1:3] if "=" in x)
        text = line.split(None, 3)[3] if len(line.split(None, 3)) > 3 else ""
        res.setdefault(fields.get("property"), {})[fields.get("id")] = text
    return res


def write_evidence(pid, ev):
    # evidence/ describes /repo itself; runs against a scratch copy (VERIF_REPO, used by the seeded-change
    # self-test) write theirs under .work so that they never overwrite it
    edir = os.path.join(common.VERIF, "evidence") if common.REPO == "/repo" else os.path.join(common.WORK, "evidence-scratch")
    os.makedirs(edir, exist_ok=True)
    path = os.path.join(edir, pid + ".json")
    tmp = path + ".tmp"
    with open(tmp, "w") as f:
        json.dump(ev, f, indent=1)
    os.replace(tmp, path)


def finish(pid, tier, seed, level, coverage, assumptions, new, known_seen, t0):
    """Common tail: known-finding lines, evidence, verdict."""
    kf = known_findings().get(pid, {})
    for fid, text in sorted(kf.items()):
        n = known_seen.get(fid, 0)
        print("KNOWN-FINDING: property=%s %s %s [%s]" % (
            pid, fid, text, ("reproduced in %d executions of this run" % n) if n else "not exercised in this run"))
    coverage["known_findings_seen"] = known_seen
    ev = {"property_id": pid, "tier": tier, "seed": seed, "level": level, "coverage": coverage,
          "assumptions": assumptions, "wall_s": round(time.time() - t0, 2), "violations": len(new)}
    write_evidence(pid, ev)
    if new:
        first = new[0]
        for x in new[:5]:
            print("  failing clause %s at record %s (entity %s, driver %s)%s" % (
                x.get("c"), x.get("at"), x.get("ent"), x.get("driver"),
                (" finding-signature %s is not listed as open" % x["kf"]) if x.get("kf") else ""))
        print("VIOLATION property=%s replay=%s" % (pid, first.get("replay", "-")))
        return 1
    print("OK property=%s tier=%s" % (pid, tier))
    return 0


def check_pool(pid, tier, seed, t0):
    import poolcheck
    res = poolcheck.cached_pipeline(tier, seed, log=lambda m: print("  " + m))
    if res["harness_errors"]:
        print("MACHINERY: the harness crashed on %d schedules: %s" % (len(res["harness_errors"]), res["harness_errors"][0]["err"]))
        return 2
    kf = known_findings().get(pid, {})
    mine = [x for x in res["viol"] if common.prop_of(x["c"]) == pid]
    mc = [x for x in res.get("mc_viol", []) if common.prop_of(x["c"]) == pid]
    new = [x for x in mine + mc if not x["kf"] or x["kf"] not in kf]
    new.sort(key=lambda x: (0 if x.get("replay") else 1))
    known_seen = {}
    for x in mine + mc:
        if x["kf"] and x["kf"] in kf:
            known_seen[x["kf"]] = known_seen.get(x["kf"], 0) + x.get("count", 1)
    hits = {h: n for h, n in res["hits"].items() if h.startswith(pid + ".")}
    tl = res.get("tlc", [])
    states = res.get("judge_states", 0) + sum(r.get("states", 0) for r in tl) + res.get("followed", {}).get("states", 0)
    trans = res.get("judge_transitions", 0) + sum(r.get("transitions", 0) for r in tl)
    coverage = {
        "states": states, "transitions": trans,
        "traces_validated_against_impl": res["traces"],
        "evaluations": res["traces"],
        "distinct_nontrivial": res.get("prop_traces", {}).get(pid, 0),
        "rule": "a case is one schedule (pool configuration + environment choices per event-loop handle / user-code "
                "point) executed on the real pool and judged record by record by spec/Monitor.tla; it counts as "
                "non-trivial for this property when the antecedent of at least one of the property's clauses was "
                "exercised (monitor hit set; antecedents that nearly every execution exercises - tools/poolcheck.py "
                "TRIVIAL_HITS - do not count); distinct = distinct schedule content",
        "samples": res["samples"][:4],
        "exhaustive": False,
        "model_checking_runs": tl,
        "model_conformance": res.get("conformance", {}),
        "unbounded_lemma_apalache": res.get("lemma", {}),
        "executed_schedules_followed_in_model": res.get("followed", {}),
        "model_drift_samples": res.get("drift", [])[:2],
        "schedules_by_driver": res["drivers"],
        "trace_records": res["events"],
        "clause_hits": hits,
        "pipeline_cached": res.get("cached", False),
        "pipeline_wall_s": res.get("wall_s"),
    }
    assumptions = [
        "CPython 3.12 asyncio internals used by the single-step loop (BaseEventLoop._ready, Handle._run, task factory)",
        "the harness-owned worker/callback/iterator code reports its own events truthfully",
        "TLC evaluates spec/Monitor.tla correctly; bounds of the exhaustive runs are listed under model_checking_runs",
    ]
    return finish(pid, tier, seed, "model_checking", coverage, assumptions, new, known_seen, t0)


def replay(path):
    data = json.load(open(path))
    if data.get("kind") == "pool":
        res = common.execute_all([{"cfg": data["cfg"], "cmds": data["cmds"]}], procs=1)[0]
        if not res["ok"]:
            print("MACHINERY:", res["err"])
            return 2
        vs, _ = common.judge([res["trace"]], common.workdir("replay-run"))
        bad = [x for x in vs[0]["viol"] if x["c"] == data.get("clause")]
        for i, rec in enumerate(res["trace"]):
            print(i + 1, json.dumps(rec)[:240])
        for x in sorted(vs[0]["viol"], key=lambda x: x["at"]):
            print("failing clause", x)
        if bad:
            print("VIOLATION property=%s replay=%s" % (common.prop_of(data["clause"]), path))
            return 1
        print("not reproduced: clause %s holds on this tree for this schedule" % data.get("clause"))
        return 0
    if data.get("kind") == "queue":
        import queuecheck
        return queuecheck.replay(data, path)
    import ctlcheck
    return ctlcheck.replay(data, path)


def private_java_tmpdir():
    """TLC / SANY leave a temporary directory per run in java.io.tmpdir (/tmp by default): give every check invocation a directory
    of its own under .work and remove it at exit (inherited by all tlc / apalache child processes through JAVA_TOOL_OPTIONS)."""
    import atexit
    import shutil
    d = os.path.join(common.WORK, "jtmp", str(os.getpid()))
    os.makedirs(d, exist_ok=True)
    os.environ["JAVA_TOOL_OPTIONS"] = (os.environ.get("JAVA_TOOL_OPTIONS", "") + " -Djava.io.tmpdir=" + d).strip()
    atexit.register(shutil.rmtree, d, True)


def main():
    private_java_tmpdir()
    ap = argparse.ArgumentParser()
    ap.add_argument("pid", nargs="?")
    ap.add_argument("--tier", default=os.environ.get("VERIF_TIER", "quick"))
    ap.add_argument("--replay")
    a = ap.parse_args()
    seed = int(os.environ.get("VERIF_SEED", "0") or 0)
    t0 = time.time()
    try:
        if a.replay:
            return replay(a.replay)
        pid = a.pid
        n = int(pid[1:])
        if 1 <= n <= 15:
            return check_pool(pid, a.tier, seed, t0)
        if 16 <= n <= 19:
            import ctlcheck
            return ctlcheck.check(pid, a.tier, seed, t0, finish)
        if n == 20:
            import queuecheck
            return queuecheck.check(pid, a.tier, seed, t0, finish)
        print("unknown property", pid)
        return 2
    except common.MachineryError as e:
        print("MACHINERY:", e)
        return 2
    except Exception:
        traceback.print_exc()
        print("MACHINERY: unexpected error")
        return 2


if __name__ == "__main__":
    sys.exit(main())
