"""setup_cmd: verify that the tooling this framework needs is present and the specs parse (offline)."""
import os, subprocess, sys
sys.path.insert(0, os.path.dirname(os.path.abspath(__file__)))
import common
os.makedirs(common.WORK, exist_ok=True)
ok = True
for mod in sorted(f[:-4] for f in os.listdir(common.SPEC) if f.endswith(".tla")):
    p = subprocess.run(["tla-sany", mod + ".tla"], cwd=common.SPEC, stdout=subprocess.PIPE, stderr=subprocess.STDOUT, text=True)
    good = p.returncode == 0 and "Semantic errors" not in p.stdout and "***Parse Error***" not in p.stdout
    print("%-16s %s" % (mod, "parses" if good else "FAILS"))
    if not good:
        print(p.stdout[-2000:]); ok = False
import shutil
for tool in ("tlc", "tla-sany", "apalache-mc", "tlapm"):
    print("%-16s %s" % (tool, shutil.which(tool) or "NOT FOUND (the steps that use it are reported as skipped in the evidence)"))
    if tool in ("tlc", "tla-sany") and shutil.which(tool) is None:
        ok = False
sys.path.insert(0, os.path.join(common.VERIF, "harness"))
import poolrun  # noqa: imports asyncio_taskpool from /repo/src
print("asyncio_taskpool importable from", common.REPO)
sys.exit(0 if ok else 1)
