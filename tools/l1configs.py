"""Bounded configurations of the implementation-level specification explored by TLC, per tier.

Each configuration is one exhaustive (BFS) or randomised (simulation) exploration of spec/PoolImpl.tla with the
environment restricted to some operation kinds - a "slice" built around the behaviour behind one or two properties.
All 15 property invariants (Monitor clauses) are checked in every configuration."""
from l1 import conf, T

BASIC = ("spawn", "release")


def configs(tier):
    big = tier == "thorough"
    b = 1 if big else 0
    C = []
    # C01 / C02: capacity for every size, with cancellations and completions in every gap
    for size in (0, 1, 2, -1):
        C.append(conf("size%s" % (size if size >= 0 else "inf"), size=size, tpl=[T(num=3)],
                      ops=BASIC + ("cancel",), maxops=4 + b, props=("C01", "C02")))
    C.append(conf("apply_cb", size=1, tpl=[T(num=2, ecb="sync", ccb="sync")],
                  ops=BASIC + ("cancel", "cancel_group"), maxops=4 + b, props=("C03", "C06", "C07")))
    C.append(conf("apply2_async", size=2, tpl=[T(num=2, ecb="async", ccb="async"), T(num=1, gname="ga")],
                  ops=BASIC + ("release_cb", "cancel", "cancel_all"), maxops=4 + b, outs=("ret", "exc"),
                  props=("C02", "C03", "C07", "C12")))
    C.append(conf("raising_cbs", size=1, tpl=[T(num=2, ecb="sraise", ccb="araise", onc="exc")],
                  ops=BASIC + ("release_cb", "cancel"), nh=1, hkinds=("flush",), maxops=4 + b, outs=("ret", "exc"),
                  props=("C12", "C03")))
    C.append(conf("worker_reacts", size=2, tpl=[T(num=1, onc="again", ecb="sync"), T(num=1, onc="swallow", ccb="sync")],
                  ops=BASIC + ("cancel", "cancel_all"), maxops=5 + b, outs=("ret", "again"), props=("C03", "C06")))
    C.append(conf("imm_and_bad", size=1, tpl=[T(num=3, imm=True, bad=[1], ecb="sync"), T(num=1)],
                  ops=BASIC + ("cancel_group", "lock"), maxops=4 + b, props=("C04", "C12")))
    # C05: the map family
    C.append(conf("map_basic", size=2, tpl=[T(kind="map", num=3, nc=2, ecb="sync")],
                  ops=BASIC + ("cancel", "cancel_group"), maxops=4 + b, props=("C05", "C07")))
    C.append(conf("starmap_apply", size=1, tpl=[T(kind="starmap", num=2, nc=1), T(num=2, onc="swallow")],
                  ops=BASIC + ("cancel_group", "lock"), maxops=4 + b, props=("C05", "C04", "C07")))
    C.append(conf("dsm_bad", size=2, tpl=[T(kind="doublestarmap", num=3, nc=1, bad=[1], ecb="async")],
                  ops=BASIC + ("release_cb", "cancel", "cancel_all"), maxops=4 + b, outs=("ret", "exc"), props=("C05", "C12")))
    C.append(conf("two_maps", size=2, tpl=[T(kind="map", num=2, nc=2), T(kind="map", num=2, nc=1, gname="gm")],
                  ops=BASIC + ("cancel_group",), maxops=4 + b, props=("C05", "C07", "C10")))
    # C14 / C04 for SimpleTaskPool
    C.append(conf("simple_stop", cls="SimpleTaskPool", size=2, tpl=[T(kind="start", num=2), T(kind="start", num=1)],
                  plan={"ecb": "sync", "onc": "again"}, ops=BASIC + ("stop", "cancel"), maxops=4 + b, stopvals=(0, 1, 2),
                  props=("C14", "C04", "C06")))
    C.append(conf("simple_lock", cls="SimpleTaskPool", size=1, tpl=[T(kind="start", num=3), T(kind="start", num=1)],
                  plan={"ccb": "sync"}, ops=BASIC + ("stop", "lock", "cancel_group"), maxops=4 + b, stopvals=(1, 5),
                  props=("C14", "C09", "C04")))
    # C08 / C13: awaited methods
    C.append(conf("flush_gac", size=1, tpl=[T(num=2, ecb="async")], nh=2, hkinds=("flush", "gac", "until"),
                  ops=BASIC + ("release_cb", "cancel", "hstart"), maxops=4 + b, props=("C08", "C13", "C02")))
    C.append(conf("gac_map", size=1, tpl=[T(kind="map", num=3, nc=2), T(num=1, gname="gx")], nh=2, hkinds=("gac", "until"),
                  ops=BASIC + ("cancel_group", "hstart"), maxops=4 + b, props=("C08", "C07")))
    C.append(conf("flush_overlap", size=2, tpl=[T(num=2, ccb="async", ecb="async")], nh=2, hkinds=("flush",),
                  ops=BASIC + ("release_cb", "cancel", "hstart"), maxops=5, outs=("ret", "exc"), props=("C13", "C02", "C12")))
    # the user cancels the task awaiting flush / gather_and_close / until_closed (gather's cancel-the-children rule,
    # flush's suppress(CancelledError) swallowing the cancellation during its first wait)
    C.append(conf("cancel_awaiter", size=1, tpl=[T(num=2, ecb="async"), T(kind="map", num=2, nc=1)], nh=2,
                  hkinds=("flush", "gac", "until"), ops=BASIC + ("release_cb", "hstart", "hcancel", "cancel_group"), maxops=4 + b,
                  props=("C08", "C13")))
    # C09 / C10: rejections, names
    C.append(conf("rejections", size=1, tpl=[T(num=1, gname="ga"), T(kind="map", num=1, nc=0), T(num=1, notcoro=True),
                                              T(kind="map", num=1, gname="ga"), T(num=1)], nh=1, hkinds=("gac",),
                  ops=BASIC + ("lock", "cancel_group", "hstart", "get_ids"), maxops=3 + 2 * b, props=("C09", "C10")))
    # user-code points: operations in the middle of a handle
    C.append(conf("arm_points", size=1, tpl=[T(num=2, ecb="sync", ccb="sync")], arms=("begin", "fin", "ecb", "ccb", "canc"),
                  ops=BASIC + ("cancel", "cancel_group", "lock"), maxops=3 + b, props=("C07", "C02", "C03")))
    C.append(conf("arm_map", size=1, tpl=[T(kind="map", num=2, nc=1, ecb="sync")], arms=("ecb", "call", "pull", "begin"),
                  ops=BASIC + ("cancel", "cancel_group", "cancel_all"), maxops=3 + b, props=("C07", "C05")))
    # a cancellation reaching a task inside its own last step, followed by flush / gather_and_close (open finding KF-K)
    C.append(conf("arm_then_gather", size=2, tpl=[T(num=2, imm=False, ecb="sync")], arms=("fin", "begin"), nh=1,
                  hkinds=("gac", "flush"), ops=BASIC + ("cancel", "cancel_group", "hstart"), maxops=4 + b, props=("C08", "C12")))
    # C15 (known finding KF-B): pool_size read / assigned with tasks in flight
    C.append(conf("set_size", size=1, tpl=[T(num=3)], ops=BASIC + ("set_size",), sizevals=(-1, 0, 2), maxops=4 + b, props=("C15",)))
    # randomised deeper runs of the whole operation vocabulary
    nsim = 2000 if big else 100
    C.append(conf("sim_taskpool", mode="sim", num=nsim, depth=70, size=2,
                  tpl=[T(num=2, ecb="async", ccb="sync"), T(kind="map", num=3, nc=2, ecb="sync", bad=[1]), T(num=2, gname="ga", onc="swallow"),
                       T(kind="starmap", num=2, nc=1, ccb="async")],
                  nh=3, hkinds=("flush", "gac", "until"), outs=("ret", "exc", "again"),
                  arms=("begin", "fin", "ecb", "ccb", "canc"),
                  ops=("spawn", "release", "release_cb", "cancel", "cancel_group", "cancel_all", "lock", "get_ids", "hstart"),
                  maxops=14, maxcancel=2, props=()))
    C.append(conf("sim_simple", mode="sim", num=nsim, depth=60, cls="SimpleTaskPool", size=2,
                  tpl=[T(kind="start", num=2), T(kind="start", num=3), T(kind="start", num=1)],
                  plan={"ecb": "async", "ccb": "sync", "onc": "again"}, nh=2, hkinds=("flush", "gac"), outs=("ret", "exc"),
                  arms=("begin", "ecb", "canc"),
                  ops=("spawn", "release", "release_cb", "cancel", "cancel_group", "stop", "lock", "hstart"),
                  maxops=12, stopvals=(0, 1, 2), maxcancel=2, props=()))
    return C
