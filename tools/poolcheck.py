"""The pool pipeline behind the checks of C01..C15.

One run (per tier, seed and content hash of /repo/src) does all the work once and caches the outcome under
/verif/.work/cache; every property's check then reads its own clauses out of it and writes its own evidence.

  1. TLC model-checks the implementation-level specification (spec/PoolImpl*.tla) against the monitor
     (spec/Monitor.tla) for all environment schedules within the bounds of the tier        [tools/l1.py]
  2. schedules: TLC-generated behaviours of that specification + directed reproductions + seeded random
  3. every schedule is executed on the real pool (harness/poolrun.py), TLC-generated ones in lock-step
     with the observation the specification predicted (model conformance)
  4. every recorded trace is judged by TLC with the monitor (spec/PoolTrace.tla)
"""
from __future__ import annotations

import hashlib
import json
import os
import sys
import time

sys.path.insert(0, os.path.dirname(os.path.abspath(__file__)))
import common  # noqa: E402
import directed  # noqa: E402
import gen_random  # noqa: E402

POOL_PROPS = ["C%02d" % i for i in range(1, 16)]
# antecedents that (nearly) every execution exercises: they do not make a case "non-trivial" for its property
TRIVIAL_HITS = {"C01.notfull", "C03.count", "C04.calls", "C09.idem", "C09.lock", "C10.exact", "C10.names", "C10.member",
                "C11.dense", "C11.name", "C15.get", "C13.flush"}


def tree_hash():
    h = hashlib.sha256()
    base = os.path.join(common.REPO, "src", "asyncio_taskpool")
    for root, dirs, files in sorted(os.walk(base)):
        dirs.sort()
        for fn in sorted(files):
            if fn.endswith(".py"):
                p = os.path.join(root, fn)
                h.update(p.encode())
                h.update(open(p, "rb").read())
    for d in ("spec", "harness", "tools"):
        for root, dirs, files in sorted(os.walk(os.path.join(common.VERIF, d))):
            dirs.sort()
            for fn in sorted(files):
                if fn.endswith((".py", ".tla", ".cfg")):
                    p = os.path.join(root, fn)
                    h.update(p.encode())
                    h.update(open(p, "rb").read())
    return h.hexdigest()[:20]


def spec_hash():
    h = hashlib.sha256()
    for d in ("spec",):
        for fn in sorted(os.listdir(os.path.join(common.VERIF, d))):
            if fn.endswith((".tla", ".cfg")):
                h.update(open(os.path.join(common.VERIF, d, fn), "rb").read())
    for fn in ("l1.py", "l1configs.py"):
        h.update(open(os.path.join(common.VERIF, "tools", fn), "rb").read())
    return h.hexdigest()[:20]


def sched_key(s):
    return hashlib.sha1(json.dumps({"cfg": s["cfg"], "cmds": s["cmds"]}, sort_keys=True).encode()).hexdigest()


def run_pipeline(tier, seed, log=print):
    t0 = time.time()
    wd = common.workdir("pool-%s-%d" % (tier, seed))
    res = {"tier": tier, "seed": seed, "tlc": [], "drivers": {}, "traces": 0, "events": 0, "viol": [],
           "hits": {}, "hit_traces": {}, "samples": [], "drift": [], "harness_errors": [], "conformance": {}}

    # -- 1+2a. TLC on the implementation-level spec, and behaviours generated from it --------------------
    scheds = []
    try:
        import l1
        have_l1 = True
    except ImportError:
        have_l1 = False
    if have_l1:
        # the model-checking half depends only on the specification (not on /repo): cache it by spec content
        l1key = "%s-%s-%d" % (spec_hash(), tier, seed)
        l1dir = os.path.join(common.WORK, "l1cache")
        os.makedirs(l1dir, exist_ok=True)
        l1path = os.path.join(l1dir, l1key + ".json")
        data = None
        if os.path.exists(l1path) and os.environ.get("VERIF_NOCACHE") != "1":
            try:
                data = json.load(open(l1path))
                log("model-checking results and generated behaviours re-used (specification unchanged)")
            except ValueError:
                data = None
        if data is None:
            mc = l1.model_check(tier, seed, wd, log)
            gen = l1.generate(tier, seed, wd, log)
            import apalache
            lemma = apalache.discharge(wd, log)
            lemma["tlaps"] = apalache.tlaps(wd, log, "SlotProof", ["SlotAccounting"])
            viol = list(mc["violations"])
            for ob in lemma["refuted"]:
                viol.append({"c": "C02.model", "kf": "", "at": 0, "ent": -1, "driver": "apalache:" + ob, "replay": "-"})
            data = {"runs": mc["runs"], "violations": viol, "scheds": gen, "lemma": lemma}
            for fn in os.listdir(l1dir):
                if fn.endswith("-%s-%d.json" % (tier, seed)) and fn != l1key + ".json":
                    try:
                        os.remove(os.path.join(l1dir, fn))
                    except OSError:
                        pass
            tmp = "%s.%d.tmp" % (l1path, os.getpid())
            with open(tmp, "w") as f:
                json.dump(data, f)
            os.replace(tmp, l1path)
        res["tlc"] = data["runs"]
        res["lemma"] = data.get("lemma", {})
        res["mc_viol"] = data["violations"]
        for s in data["scheds"]:
            s["driver"] = "tlc"
        scheds += data["scheds"]
    # -- 2b. directed + random ---------------------------------------------------------------------------
    for name, s in sorted(directed.DIRECTED.items()):
        scheds.append(dict(s, driver="directed", name=name, want_xlog=have_l1))
    nrand = {"quick": 3000, "thorough": 40000}[tier]
    ncfg = {"quick": 30, "thorough": 120}[tier]
    for i in range(nrand):
        mode = i % 4
        # pool configurations come from a small seed space so that many schedules share one and can be followed in
        # the implementation-level specification in one TLC run (code -> PoolImpl, spec/PoolFollow.tla)
        s = gen_random.make(seed * 1000003 + i, calm=(mode == 0), allow_size=(mode == 3), cfgseed=(seed * 131 + i // 4) % ncfg)
        s["driver"] = "random"
        s["want_xlog"] = have_l1
        scheds.append(s)
    for i in range(nrand // 10):
        s = gen_random.make_multi(seed * 1000003 + 500000 + i)
        s["driver"] = "random-multipool"
        scheds.append(s)
    # -- 3+4. execute, follow, judge - in chunks, so that a thorough run does not hold every trace in memory ----------
    replay_dir = os.path.join(common.WORK, "replay")
    os.makedirs(replay_dir, exist_ok=True)
    hit_traces, agg = {}, {}
    conf = {"replayed": 0, "agree": 0, "drift": 0, "skipped_cmds": 0}
    fol = {"runs": 0, "agree": 0, "drift": 0, "configurations": 0, "commands": 0, "states": 0, "drift_samples": []}
    states = trans = 0
    t_exec = t_follow = t_judge = 0.0
    nexec = 0
    per = {}
    chunk = 6000
    for c0 in range(0, len(scheds), chunk):
        part = scheds[c0:c0 + chunk]
        t1 = time.time()
        out = common.execute_all(part)
        t_exec += time.time() - t1
        nexec += len(part)
        good = []
        for s, r in zip(part, out):
            res["drivers"][s["driver"]] = res["drivers"].get(s["driver"], 0) + 1
            if not r["ok"]:
                if len(res["harness_errors"]) < 5:
                    res["harness_errors"].append({"sched": {"cfg": s["cfg"], "cmds": s["cmds"]}, "err": r["err"]})
                continue
            if s["driver"] == "tlc":        # model conformance of TLC-generated schedules (lock-step)
                conf["replayed"] += 1
                conf["agree"] += 1 if (r["drift"] is None and r["skipped"] == 0) else 0
                conf["drift"] += 1 if r["drift"] is not None else 0
                conf["skipped_cmds"] += 1 if r["skipped"] > 0 else 0
                if r["drift"] is not None and len(res["drift"]) < 5:
                    res["drift"].append({"drift": r["drift"], "cfg": s["cfg"], "cmds": s["cmds"][: r["drift"]["pos"] + 1]})
            npools = len(s["cfg"]["pools"]) if "pools" in s["cfg"] else 1
            if npools == 1:
                good.append((s, r))
            else:       # one trace per pool: each pool is judged on its own records (independence is part of C11)
                for tr in common.split_pools(r["trace"], npools):
                    good.append((s, dict(r, trace=tr, xlog=None)))
        # code -> PoolImpl: follow the executed random / directed schedules in the model (drift is reported, never a verdict)
        if have_l1:
            t1 = time.time()
            groups = {}
            for s, r in good:
                if r.get("xlog"):
                    k = json.dumps(s["cfg"], sort_keys=True)
                    groups.setdefault(k, (s["cfg"], [], []))
                    groups[k][1].append(r["xlog"])
                    groups[k][2].append(s)
            if groups:
                gl = [(v[0], v[1]) for v in groups.values()]
                fres, fstates = l1.follow(gl, wd, log)
                flat = [(s, x) for v in groups.values() for s, x in zip(v[2], v[1])]
                drifted = [(s, x, o) for (s, x), o in zip(flat, fres) if o["bad"] != 0]
                fol["runs"] += len(fres)
                fol["agree"] += len(fres) - len(drifted)
                fol["drift"] += len(drifted)
                fol["configurations"] += len(gl)
                fol["commands"] += sum(len(x) for _, x in flat)
                fol["states"] += fstates
                for s, x, o in drifted[:2]:
                    if len(fol["drift_samples"]) < 2:
                        fol["drift_samples"].append({"cfg": s["cfg"], "at": o["bad"], "cmds": x[max(0, o["bad"] - 5): max(o["bad"], 1)]})
            for s, r in good:
                r.pop("xlog", None)
            t_follow += time.time() - t1
        # judge
        t1 = time.time()
        verdicts, st = common.judge([r["trace"] for _, r in good], wd, name="batch%d" % (c0 // chunk))
        t_judge += time.time() - t1
        states += st[0]
        trans += st[1]
        res["traces"] += len(good)
        res["events"] += sum(len(r["trace"]) for _, r in good)
        for (s, r), v in zip(good, verdicts):
            k = sched_key(s)
            for hname in v["hit"]:
                res["hits"][hname] = res["hits"].get(hname, 0) + 1
                hit_traces.setdefault(hname, set()).add(k)
            for x in v["viol"]:
                sig = (x["c"], x["kf"])
                e = agg.get(sig)
                if e is None:
                    e = agg[sig] = {"c": x["c"], "kf": x["kf"], "at": x["at"], "ent": x["ent"], "driver": s["driver"], "count": 0,
                                    "witnesses": []}
                e["count"] += 1
                if len(e["witnesses"]) < 3:
                    # keep a replayable witness for the first few occurrences of each (clause, finding)
                    path = os.path.join(replay_dir, "%s-%s-%s.json" % (x["c"], x["kf"] or "new", k[:10]))
                    with open(path, "w") as f:
                        json.dump({"kind": "pool", "cfg": s["cfg"], "cmds": s["cmds"], "clause": x["c"], "kf": x["kf"],
                                   "at": x["at"], "ent": x["ent"], "driver": s["driver"]}, f)
                    e["witnesses"].append(path)
                    e.setdefault("replay", path)
        for s, r in good:
            if per.get(s["driver"], 0) < 2:
                per[s["driver"]] = per.get(s["driver"], 0) + 1
                res["samples"].append({"driver": s["driver"], "cfg": s["cfg"], "cmds": s["cmds"][:40], "trace_len": len(r["trace"])})
        del out, good, verdicts
    log("executed %d schedules on the real pool in %.1fs" % (nexec, t_exec))
    if have_l1:
        log("followed %d executed schedules (%d configurations, %d commands) in PoolImpl: %d agree, %d drift (%.1fs)" % (
            fol["runs"], fol["configurations"], fol["commands"], fol["agree"], fol["drift"], t_follow))
        res["followed"] = fol
    log("judged %d traces with the TLA+ monitor in %.1fs" % (res["traces"], t_judge))
    res["conformance"] = conf
    res["viol"] = list(agg.values())
    res["judge_states"], res["judge_transitions"] = states, trans
    res["hit_traces"] = {h: len(v) for h, v in hit_traces.items()}
    prop_keys = {}
    for h, ks in hit_traces.items():
        if h in TRIVIAL_HITS:
            continue
        if h[:1] == "C" and "." in h:
            prop_keys.setdefault(h.split(".")[0], set()).update(ks)
    res["prop_traces"] = {p: len(v) for p, v in prop_keys.items()}
    res["wall_s"] = round(time.time() - t0, 1)
    return res


def cached_pipeline(tier, seed, log=print):
    key = "%s-%s-%d" % (tree_hash(), tier, seed)
    cdir = os.path.join(common.WORK, "cache")
    os.makedirs(cdir, exist_ok=True)
    path = os.path.join(cdir, key + ".json")
    if os.path.exists(path) and os.environ.get("VERIF_NOCACHE") != "1":
        try:
            res = json.load(open(path))
            res["cached"] = True
            return res
        except Exception:
            pass
    # prune old cache entries
    for fn in os.listdir(cdir):
        try:
            if time.time() - os.path.getmtime(os.path.join(cdir, fn)) > 6 * 3600:
                os.remove(os.path.join(cdir, fn))
        except OSError:
            pass
    lock = path + ".lock"
    import fcntl
    with open(lock, "w") as lf:
        fcntl.flock(lf, fcntl.LOCK_EX)
        if os.path.exists(path) and os.environ.get("VERIF_NOCACHE") != "1":
            res = json.load(open(path))
            res["cached"] = True
            return res
        res = run_pipeline(tier, seed, log)
        tmp = path + ".tmp"
        with open(tmp, "w") as f:
            json.dump(res, f)
        os.replace(tmp, path)
    res["cached"] = False
    return res
