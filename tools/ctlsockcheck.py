"""C19: control server lifecycle over real sockets.  Event orders are behaviours of spec/Control.tla (TLC, transports
tcp + unix); each is run on real sockets (harness/ctlsock.py, child process, bounded waits) and judged by
Control!SockMon."""
from __future__ import annotations

import concurrent.futures as cf
import json
import os
import random
import shutil
import subprocess
import sys
import time

sys.path.insert(0, os.path.dirname(os.path.abspath(__file__)))
import common  # noqa: E402
import ctlcheck  # noqa: E402


def spec_orders(tier, wd):
    d = os.path.join(wd, "sockspec")
    os.makedirs(d, exist_ok=True)
    shutil.copy(os.path.join(common.SPEC, "Control.tla"), d)
    nsess, maxlines = (3, 3) if tier == "thorough" else (2, 2)
    with open(os.path.join(d, "MCK.tla"), "w") as f:
        f.write('---- MODULE MCK ----\nEXTENDS Control\nSessDef == 0..%d\nClassesDef == {"query", "mutate", "badarg"}\n'
                'TransportsDef == {"tcp", "unix"}\n====\n' % (nsess - 1))
    with open(os.path.join(d, "MCK.cfg"), "w") as f:
        f.write("SPECIFICATION Spec\nCONSTANTS\n  Sess <- SessDef\n  Classes <- ClassesDef\n  MaxLines = %d\n  Transports <- TransportsDef\n"
                "VIEW View\nINVARIANT RepliesAccounted\nINVARIANT DoneMeansGone\nINVARIANT PrintLeaf\nPROPERTY PoolUntouched\nCHECK_DEADLOCK FALSE\n" % maxlines)
    t0 = time.time()
    p = subprocess.run(["tlc", "-workers", str(common.NCPU), "-metadir", os.path.join(d, "meta"), "-noGenerateSpecTE", "-config", "MCK.cfg", "MCK.tla"],
                       cwd=d, stdout=subprocess.PIPE, stderr=subprocess.STDOUT, text=True, timeout=3000)
    shutil.rmtree(os.path.join(d, "meta"), ignore_errors=True)
    if "No error has been found" not in p.stdout:
        open(os.path.join(d, "MCK.out"), "w").write(p.stdout)
        raise common.MachineryError("TLC failed on Control (socket slice): %s" % p.stdout[-1500:])
    hists = [h["hist"] for h in common.parse_printed_json(p.stdout, "SCRIPT")]
    st = common.tlc_stats(p.stdout)
    return hists, {"config": "control_sockets", "sessions": nsess, "max_lines": maxlines, "states": st[0], "transitions": st[1],
                   "behaviours_printed": len(hists), "wall_s": round(time.time() - t0, 1)}


C = lambda s, cli=False: {"c": "connect", "s": s, "cli": cli}      # noqa: E731
CN = lambda s: {"c": "connect", "s": s, "nohandshake": True}        # noqa: E731
HS = lambda s: {"c": "handshake", "s": s}                           # noqa: E731
Q = lambda s, cls="query", v=None: dict({"c": "cmd", "s": s, "cls": cls}, **({} if v is None else {"v": v}))   # noqa: E731
D = lambda s, how="close": {"c": "disconnect", "s": s, "how": how}  # noqa: E731
W = lambda s: {"c": "wait", "s": s}                                 # noqa: E731
STOP = {"c": "stop"}
DIRECTED = [
    [STOP],                                                # cancelled before anything else happened
    [C(0), D(0), STOP],                                    # a client came and went before the stop
    [C(0), STOP, D(0)],                                    # a client is connected at the stop and leaves afterwards
    [C(0), STOP, Q(0), D(0)],                              # ... and sends one more command first
    [C(0), Q(0), C(1, True), Q(1), D(0, "eof"), Q(1), STOP, D(1, "exit")],
    [C(0, True), Q(0, "mutate"), C(1), Q(1), D(0, "eof"), Q(1), D(1), STOP],
    [{"c": "connect", "s": 0, "nohandshake": True}, D(0), C(1), Q(1), D(1), STOP],   # a client that leaves before its handshake
    [C(0), Q(0, "badarg"), Q(0, "unknown"), Q(0), D(0)],   # no stop: the server keeps serving
    [C(0), Q(0), {"c": "cancelall"}],                      # the application shuts down with a client connected
    [C(0), D(0), STOP, {"c": "restart"}, C(1), Q(1), D(1), STOP],   # stop, then the same server object serves again
    # handshakes that overlap: two raw clients connect, then send their handshakes in either order; a CLI client in between
    [CN(0), CN(1), HS(0), HS(1), Q(0, v=0), Q(1, v=3), D(0), D(1), STOP],
    [CN(0), CN(1), HS(1), HS(0), Q(0, v=0), Q(1, v=0), Q(0, "mutate"), D(1), D(0), STOP],
    [CN(0), C(1, True), HS(0), Q(0, v=2), Q(1, v=2), D(0), D(1, "exit"), STOP],
    # a session inside an endless wait (until-closed): the other session is served meanwhile; when its client leaves - before or
    # after the stop - the serving task should still complete (it does not: known finding KF-L)
    [C(0), C(1), W(0), Q(1, v=0), Q(1, "mutate"), D(1), D(0), STOP],
    [C(0), C(1, True), W(0), Q(1, v=2), STOP, D(0), D(1, "exit")],
    [C(0), W(0), D(0), C(1), Q(1, v=0), D(1)],             # ... and without a stop the server keeps serving others
    # 70 connections that go away without a (valid) handshake, then a regular client
    [{"c": "flood", "n": 70}, C(0), Q(0, v=0), C(1, True), Q(1, v=0), D(0), D(1, "exit"), STOP],
    # the user hits return on an empty line in the CLI client, then goes on working
    [C(0, True), Q(0, v=0), {"c": "cliblank", "s": 0}, Q(0, v=5), Q(0, "mutate"), D(0, "exit"), STOP],
    # a reply that is an empty line (start on a locked pool: PoolIsLocked has no message), raw and through the CLI client
    [C(0), C(1, True), Q(0, "mutate"), Q(0, v=8), Q(1, v=8), Q(1, v=0), Q(0, v=5), D(0), D(1, "exit"), STOP],
    # the bundled CLI client and a command that takes 6 s: its reply comes when the wait is over, the next command gets its own
    [C(0, True), {"c": "cliwait", "s": 0, "secs": 6}, Q(0, v=0), Q(0, v=5), D(0, "exit"), STOP],
    # every concrete query line through a raw client and through the bundled CLI client (quotes, a 12 kB reply ...)
    [C(0), C(1, True)] + [Q(s, v=v) for v in range(8) for s in (0, 1)] + [D(0), D(1, "exit"), STOP],
]


def to_script(hist, n):
    script, hows = [], ["close", "eof"]
    served = False
    for a in hist:
        k = a["a"]
        if k == "serve":
            script.append({"c": "serve", "tr": a["tr"]})
            served = True
        elif k == "connect":
            script.append({"c": "connect", "s": a["s"], "cli": (a["s"] + n) % 3 == 0})
        elif k == "send":
            script.append({"c": "cmd", "s": a["s"], "cls": a["cls"]})
        elif k == "eof":
            script.append({"c": "disconnect", "s": a["s"], "how": hows[(a["s"] + n) % 2]})
        elif k == "stop":
            script.append({"c": "stop"})
    return script if served else None


def run_pipeline(tier, seed, log):
    t0 = time.time()
    wd = common.workdir("sock-%s-%d" % (tier, seed))
    hists, info = spec_orders(tier, wd)
    scripts = []
    seen = set()
    for n, h in enumerate(hists):
        s = to_script(h, n)
        if not s:
            continue
        k = json.dumps(s)
        if k not in seen:
            seen.add(k)
            scripts.append(s)
    rng = random.Random(seed)
    cap = 600 if tier == "thorough" else 64
    # always keep some orders with a stop and an open client, and some without any stop
    if len(scripts) > cap:
        with_stop = [s for s in scripts if any(c["c"] == "stop" for c in s)]
        without = [s for s in scripts if not any(c["c"] == "stop" for c in s)]
        scripts = rng.sample(with_stop, min(len(with_stop), cap * 3 // 4)) + rng.sample(without, min(len(without), cap // 4))
    # orders that are always run (each is also a behaviour of the specification): the stop at every distinguished moment
    directed = list(DIRECTED)
    if tier == "thorough":
        # slow clients: the handshake line arrives 12 s after the connection, a command 12 s after the previous one
        directed.append([CN(0), {"c": "pause", "secs": 12}, HS(0), Q(0, v=0), {"c": "pause", "secs": 12}, Q(0, v=2), D(0), STOP])
        directed.append([C(0, True), {"c": "cliwait", "s": 0, "secs": 20}, Q(0, v=0), D(0, "exit"), STOP])
    # an idle client is still connected a good second after the stop: it is still served, the task is still pending
    directed.append([C(0), Q(0, v=0), STOP, {"c": "pause", "secs": 1.6}, Q(0, v=0), D(0)])
    for tr in ("unix", "tcp"):
        for n, d in enumerate(directed):
            s = [dict({"c": "serve", "tr": tr}, **({"stale": True} if tr == "unix" and n % 3 == 1 else {}))] + d
            if json.dumps(s) not in {json.dumps(x) for x in scripts}:
                scripts.append(s)
    log("sockets: %d distinct event orders from the specification, running %d on real sockets" % (len(seen), len(scripts)))
    sys.path.insert(0, os.path.join(common.VERIF, "harness"))
    import ctlsock
    jobs = [{"script": s} for s in scripts]
    t1 = time.time()
    with cf.ThreadPoolExecutor(max_workers=common.NCPU) as ex:
        out = list(ex.map(ctlsock.execute, jobs))
    log("executed %d socket scripts in %.1fs" % (len(jobs), time.time() - t1))
    bad = [r for r in out if not r["ok"]]
    verdicts, st = ctlcheck.judge([r["trace"] for r in out if r["ok"]], wd, "sock", kind="sock")
    res = {"tier": tier, "seed": seed, "tlc": [info], "viol": [], "hits": {}, "traces": len(verdicts), "harness_errors": [r["err"] for r in bad][:3],
           "judge_states": st[0], "judge_transitions": st[1], "samples": [s for s in scripts[:3]], "nontrivial": 0,
           "events": sum(len(r["trace"]) for r in out)}
    rdir = os.path.join(common.WORK, "replay")
    os.makedirs(rdir, exist_ok=True)
    good = [(j, r) for j, r in zip(jobs, out) if r["ok"]]
    seenc = {}
    for (j, r), v in zip(good, verdicts):
        if any(h in ("C19.stop", "C19.disconnect", "C19.concurrent") for h in v["hit"]):
            res["nontrivial"] += 1
        for h in v["hit"]:
            res["hits"][h] = res["hits"].get(h, 0) + 1
        for x in v["viol"]:
            e = {"c": x["c"], "kf": x.get("kf", ""), "at": x["at"], "ent": x["ent"], "driver": "sockets"}
            if seenc.get(x["c"], 0) < 3:
                seenc[x["c"]] = seenc.get(x["c"], 0) + 1
                path = os.path.join(rdir, "%s-%d.json" % (x["c"], seenc[x["c"]]))
                json.dump({"kind": "sock", "job": j, "clause": x["c"], "at": x["at"]}, open(path, "w"))
                e["replay"] = path
            res["viol"].append(e)
    res["wall_s"] = round(time.time() - t0, 1)
    return res


def check(pid, tier, seed, t0, finish):
    key = "sock-%s-%s-%d" % (ctlcheck.tree_hash(), tier, seed)
    cdir = os.path.join(common.WORK, "cache")
    os.makedirs(cdir, exist_ok=True)
    path = os.path.join(cdir, key + ".json")
    if os.path.exists(path) and os.environ.get("VERIF_NOCACHE") != "1":
        res = json.load(open(path))
    else:
        res = run_pipeline(tier, seed, lambda m: print("  " + m))
        json.dump(res, open(path, "w"))
    if res["harness_errors"]:
        print("MACHINERY: socket harness failed:", res["harness_errors"][0])
        return 2
    import check as _check
    kf = _check.known_findings().get(pid, {})
    known_seen = {}
    for x in res["viol"]:
        if x.get("kf") and x["kf"] in kf:
            known_seen[x["kf"]] = known_seen.get(x["kf"], 0) + 1
    mine = sorted([x for x in res["viol"] if not (x.get("kf") and x["kf"] in kf)], key=lambda x: 0 if x.get("replay") else 1)
    cov = {"states": res["judge_states"] + sum(i["states"] for i in res["tlc"]),
           "transitions": res["judge_transitions"] + sum(i["transitions"] for i in res["tlc"]),
           "traces_validated_against_impl": res["traces"], "evaluations": res["traces"], "distinct_nontrivial": res["nontrivial"],
           "rule": "a case is one order of serve / connect / command / disconnect (close, EOF, CLI 'exit') / stop events - a behaviour of "
                   "spec/Control.tla - run over real TCP or Unix sockets with raw clients and the bundled CLI client as a subprocess; "
                   "non-trivial = it contains a disconnect, two concurrent clients, or a stop followed by the completion check",
           "samples": res["samples"], "model_checking_runs": res["tlc"], "clause_hits": res["hits"], "trace_records": res["events"],
           "exhaustive": False}
    assumptions = ["waits are bounded (%s s, VERIF_SOCK_BOUND): 'never completes' is observed as 'not within the bound'" % os.environ.get("VERIF_SOCK_BOUND", "5.0"),
                   "loopback TCP and Unix sockets of this host; CPython 3.12 asyncio.Server semantics"]
    return finish(pid, tier, seed, "model_checking", cov, assumptions, mine, known_seen, t0)


def replay(data, path):
    sys.path.insert(0, os.path.join(common.VERIF, "harness"))
    import ctlsock
    r = ctlsock.execute(data["job"])
    vs, _ = ctlcheck.judge([r["trace"]], common.workdir("replay-sock"), "one", kind="sock")
    for i, rec in enumerate(r["trace"]):
        print(i + 1, json.dumps(rec))
    for x in vs[0]["viol"]:
        print("failing clause", x)
    if any(x["c"] == data["clause"] for x in vs[0]["viol"]):
        print("VIOLATION property=C19 replay=%s" % path)
        return 1
    print("not reproduced")
    return 0
