"""Shared plumbing: running TLC, executing schedules in parallel on the real code, judging traces."""
from __future__ import annotations

import json
import multiprocessing as mp
import os
import re
import shutil
import subprocess
import sys
import time

VERIF = os.path.dirname(os.path.dirname(os.path.abspath(__file__)))
SPEC = os.path.join(VERIF, "spec")
WORK = os.path.join(VERIF, ".work")
REPO = os.environ.get("VERIF_REPO", "/repo")
NCPU = min(16, os.cpu_count() or 4)
sys.path.insert(0, os.path.join(VERIF, "harness"))


class MachineryError(Exception):
    """The checking machinery itself failed (exit 2) - never a verdict."""


def workdir(name, fresh=True):
    if REPO != "/repo":          # runs against scratch copies (seeded-change self-test) get their own directories
        import hashlib
        name += "-" + hashlib.sha1(REPO.encode()).hexdigest()[:8]
    d = os.path.join(WORK, name)
    if fresh and os.path.isdir(d):
        shutil.rmtree(d, ignore_errors=True)
    os.makedirs(d, exist_ok=True)
    return d


def tlc(module, cfg, wd, env=None, workers=NCPU, timeout=1800, extra=(), simulate=None, depth=None,
        java_opts=None, coverage=False):
    """Run TLC on spec/<module>.tla with spec/<cfg>; returns (returncode, stdout)."""
    meta = os.path.join(wd, "meta-%s-%d" % (module, int(time.time() * 1000) % 10 ** 9))
    cmd = ["tlc", "-workers", str(workers), "-metadir", meta, "-noGenerateSpecTE", "-config", cfg]
    if simulate:
        cmd += ["-simulate", simulate]
    if depth:
        cmd += ["-depth", str(depth)]
    if coverage:
        cmd += ["-coverage", "1"]
    cmd += list(extra) + [module + ".tla"]
    e = dict(os.environ)
    if env:
        e.update({k: str(v) for k, v in env.items()})
    if java_opts:
        e["JAVA_TOOL_OPTIONS"] = (e.get("JAVA_TOOL_OPTIONS", "") + " " + java_opts).strip()
    try:
        p = subprocess.run(cmd, cwd=SPEC, env=e, stdout=subprocess.PIPE, stderr=subprocess.STDOUT,
                           timeout=timeout, text=True)
    except subprocess.TimeoutExpired as ex:
        out = ex.stdout if isinstance(ex.stdout, str) else (ex.stdout or b"").decode("utf8", "replace")
        subprocess.run(["pkill", "-f", meta], check=False)
        shutil.rmtree(meta, ignore_errors=True)
        return 124, out
    shutil.rmtree(meta, ignore_errors=True)
    return p.returncode, p.stdout


_STATS = re.compile(r"(\d+) states generated, (\d+) distinct states found")


def tlc_stats(out):
    m = None
    for m in _STATS.finditer(out):
        pass
    if not m:
        return 0, 0
    return int(m.group(2)), int(m.group(1))      # (distinct states, transitions ~ states generated)


def parse_printed_json(out, marker):
    """Extract the JSON payloads of TLC PrintT("<marker>{...}") lines (robust to interleaving)."""
    res = []
    i = 0
    tag = '"' + marker
    while True:
        i = out.find(tag, i)
        if i < 0:
            break
        j = i + len(tag)
        # the payload is a TLA+ string literal: ends at the first unescaped quote
        k = j
        buf = []
        while k < len(out):
            ch = out[k]
            if ch == "\\" and k + 1 < len(out):
                buf.append(out[k:k + 2])
                k += 2
                continue
            if ch == '"':
                break
            buf.append(ch)
            k += 1
        raw = "".join(buf)
        try:
            res.append(json.loads(json.loads('"' + raw + '"')))
        except Exception as ex:  # broken line = machinery problem
            raise MachineryError("cannot parse TLC output line: %r (%s)" % (raw[:200], ex))
        i = k
    return res


# ------------------------------------------------------------------------------------------------------
def _exec_one(sched):
    import poolrun
    try:
        r = poolrun.execute(sched)
        return {"ok": True, "trace": r["trace"], "drift": r["drift"], "skipped": r["skipped"],
                "xlog": r["xlog"] if sched.get("want_xlog") else None}
    except Exception as ex:  # harness crash: machinery failure for that schedule
        import traceback
        return {"ok": False, "err": "%s: %s" % (type(ex).__name__, ex), "tb": traceback.format_exc()}


class frozen_heap:
    """Around the creation of a fork pool: everything the parent holds (schedules, TLC output ...) is moved to the permanent
    generation BEFORE the fork (gc.freeze), so that the per-schedule gc.collect() of the single-step loop in the workers only
    looks at what a schedule created - and never touches (= copies, under copy-on-write) the pages inherited from the parent."""

    def __enter__(self):
        import gc
        gc.collect()
        gc.freeze()

    def __exit__(self, *exc):
        import gc
        gc.unfreeze()
        return False


def execute_all(schedules, procs=NCPU, chunk=64):
    """Run every schedule on the real code (fresh event loop each), in parallel worker processes."""
    if not schedules:
        return []
    os.environ.setdefault("PYTHONHASHSEED", "0")
    if procs <= 1 or len(schedules) < 8:
        return [_exec_one(s) for s in schedules]
    ctx = mp.get_context("fork")
    with frozen_heap(), ctx.Pool(procs) as pool:
        return pool.map(_exec_one, schedules, chunksize=max(1, min(chunk, len(schedules) // (procs * 2) or 1)))


def split_pools(trace, npools):
    if npools == 1 and not any("p" in r for r in trace[:3]):
        return [trace]
    n = max([r.get("p", 0) for r in trace] + [0]) + 1
    return [[r for r in trace if r.get("p", 0) == p] for p in range(n)]


def judge(traces, wd, name="batch", workers=NCPU, timeout=3600):
    """Judge traces with the TLA+ monitor (spec/PoolTrace.tla). Returns verdicts aligned with traces."""
    if not traces:
        return [], (0, 0)
    path = os.path.join(wd, name + ".json")
    with open(path, "w") as f:
        json.dump(traces, f, separators=(",", ":"))
    rc, out = tlc("PoolTrace", "PoolTrace.cfg", wd, env={"TRACE_FILE": path}, workers=workers, timeout=timeout)
    if rc != 0 or "Model checking completed. No error has been found." not in out:
        with open(os.path.join(wd, name + ".tlc.out"), "w") as f:
            f.write(out)
        raise MachineryError("TLC failed on trace batch %s (rc=%s); output in %s.tlc.out\n%s"
                             % (name, rc, os.path.join(wd, name), out[-1500:]))
    vs = parse_printed_json(out, "VERDICT")
    by = {v["tid"]: v for v in vs}
    if sorted(by) != list(range(1, len(traces) + 1)):
        raise MachineryError("verdicts missing: got %d of %d" % (len(by), len(traces)))
    res = []
    for i, tr in enumerate(traces):
        v = by[i + 1]
        if v["n"] != len(tr):
            raise MachineryError("trace %d not consumed to the end (%d of %d)" % (i, v["n"], len(tr)))
        res.append(v)
    os.remove(path)
    return res, tlc_stats(out)


def prop_of(clause):
    return clause.split(".", 1)[0]
