"""C20: TLC model-checks spec/QueueCtx.tla (asyncio.Queue + the context manager on the kernel model, the property as
monitor QMon) for every schedule in bounds; its behaviours are replayed in lock-step on the real Queue and the recorded
runs are judged by QMon (spec/QueueTrace.tla)."""
from __future__ import annotations

import json
import os
import random
import shutil
import subprocess
import sys
import time

sys.path.insert(0, os.path.dirname(os.path.abspath(__file__)))
import common  # noqa: E402


def model_check(tier, wd, seed, log):
    d = os.path.join(wd, "q")
    os.makedirs(d, exist_ok=True)
    shutil.copy(os.path.join(common.SPEC, "QueueCtx.tla"), d)
    shutil.copy(os.path.join(common.SPEC, "QueueAccounting.tla"), d)
    confs = [("q_small", 2, 1, 2, 8), ("q_three", 3, 1, 2, 8)] if tier == "quick" else [("q_small", 2, 2, 2, 10), ("q_three", 3, 1, 3, 10), ("q_wide", 4, 2, 3, 9)]
    runs, scheds = [], []
    for name, nc, nj, ni, ops in confs:
        with open(os.path.join(d, name + ".cfg"), "w") as f:
            f.write("SPECIFICATION Spec\nCONSTANTS\n  NC = %d\n  NJ = %d\n  NI = %d\n  MaxOps = %d\nVIEW View\nINVARIANT C20_OK\n"
                    "INVARIANT Accounting\nINVARIANT FinishedFlag\nINVARIANT RefinesQueueAccounting\nINVARIANT PrintLeaf\nCHECK_DEADLOCK FALSE\n" % (nc, nj, ni, ops))
        t0 = time.time()
        env = dict(os.environ, JAVA_TOOL_OPTIONS=(os.environ.get("JAVA_TOOL_OPTIONS", "") + " -Dtlc2.tool.queue.IStateQueue=MemStateQueue").strip())
        p = subprocess.run(["tlc", "-workers", str(common.NCPU), "-metadir", os.path.join(d, "meta-" + name), "-noGenerateSpecTE",
                            "-config", name + ".cfg", "QueueCtx.tla"], cwd=d, env=env, stdout=subprocess.PIPE, stderr=subprocess.STDOUT,
                           text=True, timeout=3000)
        shutil.rmtree(os.path.join(d, "meta-" + name), ignore_errors=True)
        out = p.stdout
        hists = common.parse_printed_json(out, "SCHED")
        st = common.tlc_stats(out)
        ok = "No error has been found" in out
        viol = [] if ok else ["C20.model"]
        if not ok:
            open(os.path.join(d, name + ".out"), "w").write(out)
            if "is violated" not in out:
                raise common.MachineryError("TLC failed on QueueCtx %s: %s" % (name, out[-1500:]))
        runs.append({"config": name, "consumers": nc, "joiners": nj, "items": ni, "max_ops": ops, "states": st[0], "transitions": st[1],
                     "behaviours_printed": len(hists), "wall_s": round(time.time() - t0, 1), "violated": viol,
                     "counterexample": os.path.join(d, name + ".out") if viol else ""})
        log("TLC bfs %-10s %8d states %9d transitions %6d behaviours %5.1fs %s" % (name, st[0], st[1], len(hists), time.time() - t0, viol or ""))
        for h in hists:
            scheds.append({"cmds": h["hist"] + [{"c": "drain"}], "conf": name})
    return runs, scheds


def _exec(s):
    sys.path.insert(0, os.path.join(common.VERIF, "harness"))
    import queuerun
    return queuerun.execute(s)


def random_schedules(n, seed):
    out = []
    for i in range(n):
        rng = random.Random(seed * 7919 + i)
        cmds, started, nj = [], 0, 0
        for _ in range(rng.choice([8, 14, 24])):
            x = rng.random()
            if x < 0.35:
                cmds.append({"c": "step"})
            elif x < 0.5:
                cmds.append({"c": "op", "op": {"o": "put"}})
            elif x < 0.65 and started < 4:
                cmds.append({"c": "op", "op": dict({"o": "consume", "c": started}, **({"nested": True} if i % 5 == 4 and rng.random() < 0.5 else {}))})
                started += 1
            elif x < 0.72 and nj < 3:
                cmds.append({"c": "op", "op": {"o": "join"}})
                nj += 1
            elif x < 0.86 and started:
                cmds.append({"c": "op", "op": {"o": "release", "c": rng.randrange(started), "out": rng.choice(["ret", "exc"])}})
            elif started:
                cmds.append({"c": "op", "op": {"o": "cancel", "c": rng.randrange(started)}})
        cmds.append({"c": "drain"})
        out.append({"cmds": cmds, "conf": "random"})
    return out


def run_pipeline(tier, seed, log):
    import multiprocessing as mp
    t0 = time.time()
    wd = common.workdir("queue-%s-%d" % (tier, seed))
    runs, scheds = model_check(tier, wd, seed, log)
    import apalache
    lemma = apalache.discharge(wd, log, module="QueueAccounting", obligations=apalache.QUEUE_OBLIGATIONS, cinit=(),
                               what="for any number of items, consumers and joiners")
    lemma["tlaps"] = apalache.tlaps(wd, log, "QueueProof", ["QueueAccounting"])
    ntlc = len(scheds)
    cap = 60000 if tier == "thorough" else 8000
    if len(scheds) > cap:
        scheds = random.Random(seed).sample(scheds, cap)
    scheds += random_schedules(3000 if tier == "thorough" else 500, seed)
    with common.frozen_heap(), mp.get_context("fork").Pool(common.NCPU) as pool:
        out = pool.map(_exec, scheds, chunksize=64)
    bad = [r for r in out if not r["ok"]]
    good = [(s, r) for s, r in zip(scheds, out) if r["ok"]]
    tl = [(s, r) for s, r in good if s["conf"] != "random"]
    conf = {"replayed": len(tl), "agree": sum(1 for s, r in tl if r["drift"] is None and r["skipped"] == 0),
            "drift": sum(1 for s, r in tl if r["drift"] is not None)}
    log("executed %d schedules on the real Queue (%d from TLC: %d agree in lock-step, %d drift)" % (len(good), len(tl), conf["agree"], conf["drift"]))
    path = os.path.join(wd, "qbatch.json")
    json.dump([r["trace"] for _, r in good], open(path, "w"), separators=(",", ":"))
    rc, o = common.tlc("QueueTrace", "QueueTrace.cfg", wd, env={"TRACE_FILE": path})
    if rc != 0 or "No error has been found" not in o:
        open(os.path.join(wd, "qbatch.out"), "w").write(o)
        raise common.MachineryError("TLC failed on queue traces: %s" % o[-1500:])
    vs = {v["tid"]: v for v in common.parse_printed_json(o, "VERDICT")}
    if len(vs) != len(good):
        raise common.MachineryError("queue verdicts missing")
    st = common.tlc_stats(o)
    res = {"tlc": runs, "conformance": conf, "traces": len(good), "viol": [], "hits": {}, "nontrivial": 0, "harness_errors": [r["err"] for r in bad][:3],
           "judge_states": st[0], "judge_transitions": st[1], "samples": [s["cmds"][:30] for s, _ in good[:2]], "tlc_behaviours": ntlc,
           "drift_samples": [{"drift": r["drift"], "cmds": s["cmds"][: r["drift"]["pos"] + 1]} for s, r in tl if r["drift"]][:2]}
    res["lemma"] = lemma
    for ob in lemma["refuted"]:
        res["viol"].append({"c": "C20.model", "kf": "", "at": 0, "ent": -1, "driver": "apalache:" + ob, "replay": "-"})
    for r in runs:
        for v in r["violated"]:
            res["viol"].append({"c": v, "kf": "", "at": 0, "ent": -1, "driver": "tlc-mc:" + r["config"], "replay": r["counterexample"]})
    rdir = os.path.join(common.WORK, "replay")
    os.makedirs(rdir, exist_ok=True)
    seen = {}
    keys = set()
    for i, (s, r) in enumerate(good):
        v = vs[i + 1]
        if v["n"] != len(r["trace"]):
            raise common.MachineryError("queue trace not consumed")
        if {"C20.cwait", "C20.cancbody", "C20.exc", "C20.join"} & set(v["hit"]):
            keys.add(json.dumps(s["cmds"]))
        for h in v["hit"]:
            res["hits"][h] = res["hits"].get(h, 0) + 1
        for x in v["viol"]:
            e = {"c": x["c"], "kf": "", "at": x["at"], "ent": x["ent"], "driver": s["conf"]}
            if seen.get(x["c"], 0) < 3:
                seen[x["c"]] = seen.get(x["c"], 0) + 1
                p = os.path.join(rdir, "%s-%d.json" % (x["c"], seen[x["c"]]))
                json.dump({"kind": "queue", "sched": s, "clause": x["c"]}, open(p, "w"))
                e["replay"] = p
            res["viol"].append(e)
    res["nontrivial"] = len(keys)
    res["wall_s"] = round(time.time() - t0, 1)
    return res


def check(pid, tier, seed, t0, finish):
    import poolcheck
    key = "queue-%s-%s-%d" % (poolcheck.tree_hash(), tier, seed)
    cdir = os.path.join(common.WORK, "cache")
    os.makedirs(cdir, exist_ok=True)
    path = os.path.join(cdir, key + ".json")
    if os.path.exists(path) and os.environ.get("VERIF_NOCACHE") != "1":
        res = json.load(open(path))
    else:
        res = run_pipeline(tier, seed, lambda m: print("  " + m))
        json.dump(res, open(path, "w"))
    if res["harness_errors"]:
        print("MACHINERY: queue harness failed:", res["harness_errors"][0])
        return 2
    mine = sorted(res["viol"], key=lambda x: 0 if x.get("replay") else 1)
    cov = {"states": res["judge_states"] + sum(r["states"] for r in res["tlc"]),
           "transitions": res["judge_transitions"] + sum(r["transitions"] for r in res["tlc"]),
           "traces_validated_against_impl": res["traces"], "evaluations": res["traces"], "distinct_nontrivial": res["nontrivial"],
           "rule": "a case is one schedule (puts, consumers entering 'async with queue as item', joins, body outcomes return/raise, "
                   "cancellations per event-loop handle) run on the real Queue; non-trivial = a consumer was cancelled while waiting or "
                   "inside the block, a body raised, or a join completed",
           "samples": res["samples"], "model_checking_runs": res["tlc"], "model_conformance": res["conformance"],
           "model_drift_samples": res["drift_samples"], "clause_hits": res["hits"], "exhaustive": False,
           "unbounded_lemma_apalache": res.get("lemma", {})}
    assumptions = ["CPython 3.12 asyncio.Queue / Event internals as modelled in spec/QueueCtx.tla (measured by lock-step replay)",
                   "unbounded queue (maxsize 0); producers use put_nowait"]
    return finish(pid, tier, seed, "model_checking", cov, assumptions, mine, {}, t0)


def replay(data, path):
    r = _exec(data["sched"])
    if not r["ok"]:
        print("MACHINERY:", r.get("err"))
        return 2
    wd = common.workdir("replay-queue")
    tp = os.path.join(wd, "qone.json")
    json.dump([r["trace"]], open(tp, "w"), separators=(",", ":"))
    rc, o = common.tlc("QueueTrace", "QueueTrace.cfg", wd, env={"TRACE_FILE": tp})
    vs = common.parse_printed_json(o, "VERDICT")
    for i, rec in enumerate(r["trace"]):
        print(i + 1, json.dumps(rec))
    if rc != 0 or not vs:
        print("MACHINERY: TLC failed on the replayed queue trace")
        return 2
    for x in vs[0]["viol"]:
        print("failing clause", x)
    if any(x["c"] == data["clause"] for x in vs[0]["viol"]):
        print("VIOLATION property=C20 replay=%s" % path)
        return 1
    print("not reproduced: clause %s holds on this tree for this schedule (see spec/QueueCtx.tla QMon)" % data["clause"])
    return 0
