"""Directed schedules: one hand-written reproduction per defect found on the pinned tree (DESIGN.md section 2),
plus straight-line scenarios from the documentation.  They are ordinary schedules: executed on the real pool
and judged by the TLA+ monitor like any TLC-generated one."""

def S(cfg, *cmds):
    return {"cfg": cfg, "cmds": list(cmds)}

def op(**k):
    return {"c": "op", "op": k}

STEP, IDLE, DRAIN = {"c": "step"}, {"c": "idle"}, {"c": "drain"}

DIRECTED = {
    # KF-A: cancel reaches a pool task between create_task and its first step
    "kf_a_cancel_before_first_step": S(
        {"cls": "TaskPool", "size": 2, "reqs": [{"kind": "apply", "num": 1, "ecb": "sync", "ccb": "sync"}]},
        op(o="spawn", t=0), STEP, op(o="cancel", ids=[0]), IDLE, DRAIN, {"c": "probe", "k": 2}),
    "kf_a_stop_before_first_step": S(
        {"cls": "SimpleTaskPool", "size": 1, "simple": {"ecb": "sync"}},
        op(o="spawn", num=1), STEP, op(o="stop", n=1), IDLE, op(o="hstart", kind="gac"), DRAIN),
    # KF-D: spawner cancelled before its first step makes gather_and_close return early
    "kf_d_gac_early_return": S(
        {"cls": "TaskPool", "size": 2, "reqs": [{"kind": "apply", "num": 1}, {"kind": "map", "num": 3, "nc": 1}]},
        op(o="spawn", t=0), op(o="cancel_group", r=0), op(o="spawn", t=1), op(o="hstart", kind="gac"), IDLE, DRAIN),
    # KF-E: lock after acceptance kills an apply/start spawner
    "kf_e_lock_after_accept": S(
        {"cls": "TaskPool", "size": 1, "reqs": [{"kind": "apply", "num": 3}]},
        op(o="spawn", t=0), IDLE, op(o="lock"), DRAIN),
    "kf_e_gac_after_apply": S(
        {"cls": "TaskPool", "size": 1, "reqs": [{"kind": "apply", "num": 3}]},
        op(o="spawn", t=0), op(o="hstart", kind="gac"), DRAIN),
    # KF-F: flush forgets a task that entered 'cancelled' while flush was suspended
    "kf_f_flush_drops_task_in_transit": S(
        {"cls": "TaskPool", "size": 2, "reqs": [{"kind": "apply", "num": 1, "ecb": "async"},
                                                 {"kind": "apply", "num": 1, "ccb": "async", "ecb": "sync"}]},
        op(o="spawn", t=0), op(o="spawn", t=1), IDLE, op(o="release", id=0, out="ret"), IDLE,
        op(o="hstart", kind="flush"), IDLE, op(o="cancel", ids=[1]), IDLE,
        op(o="release_cb", id=0, which="ecb"), IDLE, DRAIN, {"c": "probe", "k": 2}),
    # ... and the error cancel() reports for a task in transit while / after a flush (C06.err with flush in the history)
    "flush_then_cancel_probe": S(
        {"cls": "TaskPool", "size": 2, "reqs": [{"kind": "apply", "num": 1, "ecb": "async"},
                                                 {"kind": "apply", "num": 1, "ccb": "async", "ecb": "sync"}]},
        op(o="spawn", t=0), op(o="spawn", t=1), IDLE, op(o="release", id=0, out="ret"), IDLE,
        op(o="hstart", kind="flush"), IDLE, op(o="cancel", ids=[1]), IDLE,
        op(o="release_cb", id=0, which="ecb"), IDLE, op(o="cancel", ids=[1]), op(o="cancel", ids=[0]),
        op(o="cancel", ids=[1, 0]), DRAIN, op(o="cancel", ids=[1]), op(o="hstart", kind="flush"), IDLE,
        op(o="cancel", ids=[1]), op(o="cancel", ids=[0, 7])),
    # two overlapping flushes sharing a task in their snapshots (C13), one with return_exceptions
    "flush_overlapping": S(
        {"cls": "TaskPool", "size": 3, "reqs": [{"kind": "apply", "num": 2, "ecb": "async"}]},
        op(o="spawn", t=0), IDLE, op(o="release", id=0, out="ret"), IDLE, op(o="hstart", kind="flush", re=True), IDLE,
        op(o="release", id=1, out="exc"), IDLE, op(o="hstart", kind="flush", re=True), IDLE,
        op(o="release_cb", id=0, which="ecb"), IDLE, op(o="release_cb", id=1, which="ecb"), IDLE,
        op(o="cancel", ids=[0]), op(o="cancel", ids=[1]), DRAIN),
    # ... and a second flush that begins while the first is blocked on a slow end callback, one task having settled completely
    # before it: when the second returns, that task is forgotten (C13.forget; a re-entrancy guard that makes it return at once)
    "flush_overlapping_settled": S(
        {"cls": "TaskPool", "size": 3, "reqs": [{"kind": "apply", "num": 2, "ecb": "async"}]},
        op(o="spawn", t=0), IDLE, op(o="release", id=0, out="ret"), op(o="release", id=1, out="ret"), IDLE,
        op(o="release_cb", id=1, which="ecb"), IDLE, op(o="hstart", kind="flush", re=True), IDLE,
        op(o="hstart", kind="flush", re=True), IDLE, {"c": "probe", "k": 2}, op(o="cancel", ids=[1]),
        op(o="release_cb", id=0, which="ecb"), IDLE, op(o="cancel", ids=[1]), op(o="cancel", ids=[0]), DRAIN),
    "flush_overlapping_settled_plain": S(
        {"cls": "TaskPool", "size": 3, "reqs": [{"kind": "apply", "num": 1, "ecb": "async"}, {"kind": "apply", "num": 1}]},
        op(o="spawn", t=0), op(o="spawn", t=1), IDLE, op(o="release", id=0, out="ret"), op(o="release", id=1, out="exc"), IDLE,
        op(o="hstart", kind="flush", re=True), IDLE, op(o="hstart", kind="flush", re=True), IDLE,
        {"c": "probe", "k": 2}, op(o="release_cb", id=0, which="ecb"), IDLE, DRAIN),
    # plain callbacks that return a future (some background work of the user's): called, never awaited (C02/C03)
    "callback_returns_future": S(
        {"cls": "TaskPool", "size": 2, "reqs": [{"kind": "apply", "num": 2, "ecb": "sfut", "ccb": "sfut"},
                                                 {"kind": "map", "num": 3, "nc": 2, "ecb": "sobj", "ccb": "sobj"}]},
        op(o="spawn", t=0), IDLE, op(o="release", id=0, out="ret"), op(o="cancel", ids=[1]), IDLE,
        op(o="spawn", t=1), IDLE, DRAIN, op(o="hstart", kind="flush"), IDLE, {"c": "probe", "k": 2}),
    "callback_returns_future_simple": S(
        {"cls": "SimpleTaskPool", "size": 1, "simple": {"ecb": "sobj", "ccb": "sfut"}},
        op(o="spawn", num=2), IDLE, op(o="stop", n=1), IDLE, op(o="hstart", kind="gac"), DRAIN),
    # arguments that do not fit the function: accepted, every invocation fails at the call, others are unaffected (C04/C12);
    # a functools.partial of a coroutine function under an explicit group name; callbacks of unusual make
    "apply_mismatch_and_partial": S(
        {"cls": "TaskPool", "size": 2, "reqs": [{"kind": "apply", "num": 2, "mismatch": True},
                                                 {"kind": "apply", "num": 2, "gname": "gp", "partial": True, "ecb": "swrap", "ccb": "amark"},
                                                 {"kind": "map", "num": 2, "nc": 1, "gname": "gm", "partial": True, "ecb": "amark"}]},
        op(o="spawn", t=0), op(o="spawn", t=1), IDLE, op(o="release", id=0, out="ret"), op(o="cancel", ids=[1]), IDLE,
        op(o="spawn", t=2), IDLE, op(o="get_ids", names=[0, 1, 2]), DRAIN, op(o="hstart", kind="flush"), IDLE, {"c": "probe", "k": 2}),
    # KF-M: func without __name__ (functools.partial) whose call fails for one invocation/element: the others still run
    "kf_m_partial_call_fails": S(
        {"cls": "TaskPool", "size": 2, "reqs": [{"kind": "map", "num": 3, "nc": 1, "gname": "gm", "partial": True, "bad": [1]},
                                                 {"kind": "apply", "num": 3, "gname": "ga", "partial": True, "bad": [0]}]},
        op(o="spawn", t=0), op(o="spawn", t=1), IDLE, DRAIN, op(o="hstart", kind="flush"), IDLE, {"c": "probe", "k": 2}),
    "kf_m_partial_call_fails_simple": S(
        {"cls": "SimpleTaskPool", "size": 2, "simple": {"partial": True, "bad": [1]}},
        op(o="spawn", num=3), IDLE, DRAIN, op(o="hstart", kind="gac"), DRAIN),
    # a long history: ids and group indices grow past 9 and 99, with flushes and cancellations in between (C10/C11/C13)
    "long_history": S(
        {"cls": "SimpleTaskPool", "size": 4, "simple": {"imm": True, "ecb": "sync", "method": True}, "nofollow": True},
        *([op(o="spawn", num=3), IDLE] * 5 + [op(o="hstart", kind="flush"), IDLE] + [op(o="spawn", num=3), IDLE] * 8
          + [op(o="get_ids", names=["start-group-0", "start-group-9", "start-group-12"]), op(o="cancel", ids=[9]), op(o="cancel", ids=[10, 3]),
             op(o="hstart", kind="flush"), IDLE] + [op(o="spawn", num=3), IDLE] * 22
          + [op(o="cancel", ids=[99]), op(o="cancel", ids=[104]), op(o="cancel", ids=[200]),
             op(o="get_ids", names=["start-group-34", "start-group-3"]), op(o="hstart", kind="gac"), DRAIN])),
    # elements that cannot be unpacked (None, 0) are skipped by starmap / doublestarmap, the others still run
    "void_elements": S(
        {"cls": "TaskPool", "size": 2, "reqs": [{"kind": "starmap", "num": 3, "nc": 2, "void": 1}, {"kind": "doublestarmap", "num": 2, "nc": 1, "void": 0},
                                                 {"kind": "starmap", "num": 1, "nc": 1, "void": 1}]},
        op(o="spawn", t=0), IDLE, op(o="spawn", t=1), op(o="spawn", t=2), IDLE, DRAIN, op(o="hstart", kind="flush"), IDLE),
    # the empty string is a group name like any other (explicit, unique, queryable)
    "empty_group_name": S(
        {"cls": "TaskPool", "size": 2, "reqs": [{"kind": "apply", "num": 1, "gname": ""}, {"kind": "map", "num": 2, "nc": 1, "gname": ""},
                                                 {"kind": "apply", "num": 1}]},
        op(o="spawn", t=0), IDLE, op(o="spawn", t=1), op(o="spawn", t=2), IDLE, op(o="get_ids", names=[""]), op(o="get_ids", names=[0, 2]),
        op(o="cancel_group", g=""), IDLE, op(o="spawn", t=1), IDLE, DRAIN),
    # stop() on a SimpleTaskPool whose running ids have gaps, negative and oversized arguments (C14)
    "stop_with_gaps": S(
        {"cls": "SimpleTaskPool", "size": -1, "simple": {"ccb": "async"}},
        op(o="spawn", num=4), IDLE, op(o="cancel", ids=[2]), IDLE, op(o="stop", n=-1), op(o="stop", n=2), IDLE,
        op(o="stop", n=1), op(o="release_cb", id=2, which="ccb"), IDLE, op(o="spawn", num=2), IDLE, op(o="stop", n=9), DRAIN),
    # rejected requests while locked / closed, then the next accepted start must continue the index (C09)
    "rejected_start_keeps_index": S(
        {"cls": "SimpleTaskPool", "size": 2, "simple": {}},
        op(o="spawn", num=1), IDLE, op(o="lock"), op(o="spawn", num=1), op(o="spawn", num=2), op(o="unlock"),
        op(o="spawn", num=1), IDLE, op(o="get_ids", names=["start-group-1"]), op(o="hstart", kind="gac"), DRAIN,
        op(o="spawn", num=1), op(o="unlock"), op(o="spawn", num=1)),
    # KF-K: a worker cancels its own group as its last action; the finished Task is marked cancelled by asyncio
    "kf_k_cancel_in_last_step": S(
        {"cls": "TaskPool", "size": 2, "reqs": [{"kind": "apply", "num": 2}]},
        op(o="spawn", t=0), IDLE, {"c": "arm", "pt": "fin:0", "op": {"o": "cancel_group", "r": 0}},
        op(o="release", id=0, out="ret"), IDLE, op(o="hstart", kind="gac"), DRAIN),
    # KF-B: pool_size getter / setter
    "kf_b_get": S(
        {"cls": "TaskPool", "size": 3, "reqs": [{"kind": "apply", "num": 2}]},
        op(o="spawn", t=0), IDLE, DRAIN),
    "kf_b_set_raise": S(
        {"cls": "TaskPool", "size": 1, "reqs": [{"kind": "apply", "num": 3}]},
        op(o="spawn", t=0), IDLE, op(o="set_size", n=3), IDLE, DRAIN),
    "kf_b_set_lower": S(
        {"cls": "TaskPool", "size": 3, "reqs": [{"kind": "apply", "num": 3}, {"kind": "apply", "num": 2}]},
        op(o="spawn", t=0), IDLE, op(o="set_size", n=1), op(o="spawn", t=1), IDLE, DRAIN),
    # documentation scenarios (docs/source/pages/pool.rst): happy paths
    "doc_simple_start_stop": S(
        {"cls": "SimpleTaskPool", "size": -1, "simple": {"shape": 1}},
        op(o="spawn", num=3), IDLE, op(o="stop", n=1), IDLE, op(o="spawn", num=1), IDLE,
        op(o="stop_all"), IDLE, op(o="hstart", kind="gac"), DRAIN),
    "doc_taskpool_map_apply": S(
        {"cls": "TaskPool", "size": 3, "reqs": [{"kind": "map", "num": 4, "nc": 2, "ecb": "sync"},
                                                 {"kind": "apply", "num": 2, "shape": 2},
                                                 {"kind": "starmap", "num": 2, "nc": 1},
                                                 {"kind": "doublestarmap", "num": 2, "nc": 2}]},
        op(o="spawn", t=0), op(o="spawn", t=1), IDLE, op(o="spawn", t=2), op(o="spawn", t=3), IDLE,
        op(o="hstart", kind="until"), DRAIN, op(o="lock"), op(o="hstart", kind="gac"), DRAIN, op(o="spawn", t=1)),
}
