"""Development loop: random schedules -> real pool -> TLA+ monitor; summarise clauses that fail."""
import collections, json, sys, time
sys.path.insert(0, __file__.rsplit("/", 1)[0])
import common, gen_random

def main():
    n = int(sys.argv[1]); seed0 = int(sys.argv[2]) if len(sys.argv) > 2 else 0
    calm = "calm" in sys.argv; size = "size" in sys.argv
    scheds = [gen_random.make(seed0 + i, calm=calm, allow_size=size) for i in range(n)]
    t = time.time(); res = common.execute_all(scheds); t1 = time.time() - t
    bad = [(s, r) for s, r in zip(scheds, res) if not r["ok"]]
    for s, r in bad[:3]:
        print("HARNESS ERROR seed", s["seed"], r["err"]); print(r["tb"])
    good = [(s, r) for s, r in zip(scheds, res) if r["ok"]]
    wd = common.workdir("explore")
    t = time.time(); verdicts, stats = common.judge([r["trace"] for _, r in good], wd); t2 = time.time() - t
    agg = collections.defaultdict(list); hits = collections.Counter()
    for (s, r), v in zip(good, verdicts):
        for x in v["viol"]:
            agg[(x["c"], x["kf"])].append((s["seed"], x["at"], x["ent"]))
        hits.update(v["hit"])
    print("executed %d (%.1fs, %d harness errors), judged in %.1fs, TLC states %s, events %d" % (
        len(scheds), t1, len(bad), t2, stats, sum(len(r["trace"]) for _, r in good)))
    for k in sorted(agg):
        print("  %-16s %-10s %5d traces  e.g. seeds %s" % (k[0], k[1], len({x[0] for x in agg[k]}), sorted({x[0] for x in agg[k]})[:6]))
    print("hits:", dict(sorted(hits.items())))

main()
