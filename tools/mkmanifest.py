"""Regenerates /verif/MANIFEST.json from the table below (kept in one place so it stays valid)."""
import json, os
VERIF = os.path.dirname(os.path.dirname(os.path.abspath(__file__)))
props = [json.loads(l) for l in open(os.path.join(VERIF, "properties.jsonl"))]

POOL_TEXT = ("TLC explores the implementation-level TLA+ specification of the pool (spec/PoolImpl.tla: asyncio kernel + "
             "pool coroutines, one action per event-loop handle / user-code point, the user as an explicit environment) for every "
             "environment schedule within small bounds and checks it against the property clauses of spec/Monitor.tla; the same "
             "monitor, run by TLC over traces recorded from the real pool (TLC-generated schedules replayed in lock-step, directed "
             "reproductions, seeded random schedules, several pools per loop), gives the verdict on the code; the commands executed for "
             "random/directed schedules are followed in PoolImpl by TLC (spec/PoolFollow.tla) to measure the model's fidelity; Apalache "
             "proves the slot-accounting lemma (spec/SlotAccounting.tla) inductive for every pool size, tlapm checks its deductive proof "
             "(spec/proofs/SlotProof.tla) and TLC checks that PoolImpl refines it. "
             "Exhaustive only within the stated bounds; beyond them the executed schedules are a sample.")
POOL_NOTE = ("Trusted: CPython 3.12 asyncio internals used to single-step the real event loop; harness-owned workers/callbacks/"
             "iterators report their events truthfully; TLC. The specification is bound to the code by lock-step replay of its "
             "behaviours (model drift is reported in the evidence, never as a violation); verdicts come only from observable-level clauses.")

CLAIMED = {}
for i in range(1, 16):
    CLAIMED["C%02d" % i] = dict(
        category="model_checking", text=POOL_TEXT, note=POOL_NOTE, design_ref="DESIGN.md sections 3-6",
        technique="TLA+ spec (PoolImpl + Monitor) model-checked with TLC; trace validation of real executions against the TLA+ monitor; TLC-generated schedules replayed on the code in lock-step; executed schedules followed in the spec; Apalache inductive lemma + TLAPS proof",
        engine="pool")

CTL_NOTE = ("Trusted: argparse/asyncio streams of CPython 3.12; sessions are driven through ControlServer._client_connected_cb over "
            "in-memory StreamReader + recording writer on the single-step loop (C16-C18) and over real loopback TCP / Unix sockets with "
            "bounded waits (C19); parameter values come from a finite hand-picked domain per parameter (sampled, not exhaustive).")
CLAIMED["C16"] = dict(category="model_checking", engine="control", design_ref="DESIGN.md section 6 (C16)", note=CTL_NOTE,
    text="spec/Control.tla (session: connected -> named; command surface = public members of the pool class, reflected at check time) "
         "is model-checked by TLC; for TaskPool, SimpleTaskPool and a subclass with postponed annotations x several terminal widths every public "
         "member's -h/--help and a sample of non-public names are sent to a real session and the recorded run is judged by TLC (Control!CtlMon).",
    technique="TLA+ session spec model-checked with TLC; trace validation of real sessions (all public members x widths) against it")
CLAIMED["C17"] = dict(category="translation_validation", engine="control", design_ref="DESIGN.md section 6 (C17)", note=CTL_NOTE,
    text="Command lines are the programs: TLC enumerates them from the reflected command table (spec/CtlCommands.tla: command x subset of options x "
         "one value per parameter); each is sent to a real session and performed as a direct method call on a twin pool; TLC checks the reply rule of "
         "the specification ('ok' for None, else str(result|exception)) and the equality of both pools' observable state after every command.",
    technique="translation validation: TLC-enumerated command lines vs. direct calls on a twin pool, judged by the TLA+ reply rule")
CLAIMED["C18"] = dict(category="model_checking", engine="control", design_ref="DESIGN.md section 6 (C18)", note=CTL_NOTE,
    text="spec/Control.tla: TLC checks reply accounting, isolation and 'malformed input never alters the pool' for every interleaving of two "
         "sessions and <= 4-5 lines over all line classes; every such behaviour is run on real sessions (serialised with a twin pool, and raw with "
         "queued lines / racing sessions, arbitrary printable text included) and judged record by record by Control!CtlMon.",
    technique="TLA+ session protocol model-checked with TLC; its behaviours replayed on real sessions; trace validation by the same spec")
CLAIMED["C19"] = dict(category="model_checking", engine="control", design_ref="DESIGN.md section 6 (C19)", note=CTL_NOTE,
    text="spec/Control.tla lifecycle (idle/serving/stopping/stopped, connections, 3.12 wait_closed): TLC checks DoneMeansGone, PoolUntouched and the "
         "liveness property StopCompletes under fairness (StopCompletesStrict must be violated by the model of the code as written: known finding KF-L); "
         "event orders (serve, connect, overlapping handshakes, commands incl. waiting ones, disconnect by close/EOF/CLI exit, stop, restart) generated "
         "from the spec plus directed ones are run on real TCP and Unix sockets, the bundled CLI client as a subprocess, and judged by Control!SockMon, "
         "including that the reply to concrete query lines equals what the method call gives (reply rule of C17 over a real transport).",
    technique="TLA+ server lifecycle spec (safety + liveness) with TLC; spec-generated event orders run on real sockets; trace validation")

CLAIMED["C20"] = dict(category="model_checking", engine="queue", design_ref="DESIGN.md section 6 (C20)",
    note="Trusted: CPython 3.12 asyncio.Queue/Event as modelled (fidelity measured by lock-step replay: every TLC behaviour's predicted qsize / ready-queue length / "
         "unfinished count is compared after every step); harness-owned consumers report their events truthfully; unbounded queue only.",
    text="spec/QueueCtx.tla models asyncio.Queue + the context manager on the kernel model; TLC explores every schedule of puts, consumers, joins, body "
         "outcomes and cancellations (while waiting, after hand-over, inside the block) within small bounds and checks the property monitor QMon and the "
         "accounting invariants; all behaviours are replayed in lock-step on the real Queue and the recorded runs are judged by QMon. The counting argument "
         "is proved for any number of items/consumers/joiners: spec/QueueAccounting.tla (Apalache: inductive invariant; tlapm: spec/proofs/QueueProof.tla), "
         "and TLC checks that QueueCtx refines it.",
    technique="TLA+ model of Queue + context manager model-checked with TLC; behaviours replayed in lock-step on the real Queue; trace validation by the monitor; Apalache inductive lemma + TLAPS proof")

NOT_YET = {}

def main():
    man = {
        "version": 1,
        "setup_cmd": "cd /verif && /venv/bin/python -W ignore tools/selfcheck.py",
        "hooks": {"guard": "ASYNCIO_TASKPOOL_VERIF",
                  "enable": "no hooks: the repository is observed through its public API, asyncio's task factory and harness-owned callables only (no source commit carries instrumentation)",
                  "baseline_off_cmd": "cd /repo && /venv/bin/python -m pytest -ra -q -p no:cacheprovider --timeout=900",
                  "source_commits": [], "add_only": True},
        "engines": [
            {"name": "pool", "path": "tools/poolcheck.py", "serves_properties": ["C%02d" % i for i in range(1, 16)],
             "kind_free_text": "TLC on spec/PoolImpl*.tla + spec/Monitor.tla; harness/poolrun.py single-steps the real event loop; spec/PoolTrace.tla judges recorded traces"},
            {"name": "queue", "path": "tools/queuecheck.py", "serves_properties": ["C20"],
             "kind_free_text": "TLC on spec/QueueCtx.tla; harness/queuerun.py single-steps the real event loop; spec/QueueTrace.tla judges recorded runs"},
            {"name": "control", "path": "tools/ctlcheck.py", "serves_properties": ["C16", "C17", "C18", "C19"],
             "kind_free_text": "TLC on spec/Control.tla + spec/CtlCommands.tla; harness/ctlrun.py (in-memory sessions, twin pool) and harness/ctlsock.py (real sockets, CLI client); spec/ControlTrace.tla judges recorded runs"},
        ],
        "checks": [], "not_applicable": [],
        "notes": "All checks share one pipeline run per (tier, seed, content of /repo/src and of the machinery), cached under /verif/.work/cache; every check rewrites its own evidence file. KNOWN_FINDINGS.txt lists open and fixed genuine defects.",
    }
    for p in props:
        pid = p["id"]
        if pid in CLAIMED:
            c = CLAIMED[pid]
            man["checks"].append({
                "property_id": pid,
                "quick_cmd": "./check %s --tier quick" % pid,
                "thorough_cmd": "./check %s --tier thorough" % pid,
                "evidence_file": "/verif/evidence/%s.json" % pid,
                "replay_cmd_template": "./check --replay {path}",
                "engine": c["engine"],
                "level_claimed": {"category": c["category"], "text": c["text"], "design_ref": c["design_ref"]},
                "level_note": c["note"],
                "technique": c["technique"],
            })
        else:
            man["not_applicable"].append({"property_id": pid, "reason": NOT_YET.get(pid, "check under construction in this round (control server / queue specifications not yet registered)")})
    json.dump(man, open(os.path.join(VERIF, "MANIFEST.json"), "w"), indent=1)

if __name__ == "__main__":
    main()
