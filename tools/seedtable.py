"""Regenerate the seeded-changes table of DESIGN.md (section 8) from seeded/*/meta.json."""
import glob
import json
import os
import re

VERIF = os.path.dirname(os.path.dirname(os.path.abspath(__file__)))


def key(i):
    m = re.match(r"(r(\d+)-)?(.*?)-(\d+)$", i)
    return (int(m.group(2) or (8 if i.startswith("own") else 1)), m.group(3), int(m.group(4))) if m else (9, i, 0)


def rows():
    out = []
    for d in sorted(glob.glob(os.path.join(VERIF, "seeded", "*", "meta.json")), key=lambda p: key(os.path.basename(os.path.dirname(p)))):
        m = json.load(open(d))
        i = m.get("id") or os.path.basename(os.path.dirname(d))
        summ = " ".join(str(m.get("summary", "")).split()).replace("|", "/")
        if len(summ) > 140:
            summ = summ[:140] + "…"
        det = " ".join(m.get("detected_by_checks", [])) or "— (see text)"
        if m.get("tier") == "thorough":
            det += " (thorough tier only)"
        first = m.get("first_evaluation_detected_by")
        if first is not None and first != m.get("detected_by_checks"):
            det += " (first: %s)" % (" ".join(first) or "missed")
        out.append("| %s | %s | %s |" % (i, summ, det))
    return out


def main():
    p = os.path.join(VERIF, "DESIGN.md")
    lines = open(p).read().split("\n")
    a = next(i for i, l in enumerate(lines) if l.startswith("| seeded change |"))
    b = a
    while b < len(lines) and lines[b].startswith("|"):
        b += 1
    new = lines[:a + 2] + rows() + lines[b:]
    open(p, "w").write("\n".join(new))
    print("table: %d rows" % (len(new) - len(lines) + (b - a - 2)))


if __name__ == "__main__":
    main()
