import asyncio, logging, json, os, sys
from asyncio_taskpool import SimpleTaskPool
from asyncio_taskpool.control.server import UnixControlServer
logging.disable(logging.CRITICAL)
async def w(x=1): await asyncio.sleep(100)
async def main():
    pool = SimpleTaskPool(w, pool_size=3)
    path='/tmp/kf_i.sock'
    try: os.unlink(path)
    except FileNotFoundError: pass
    srv = UnixControlServer(pool, path)
    task = await srv.serve_forever()
    r, wr = await asyncio.open_unix_connection(path)
    wr.write(json.dumps({'terminal_width': 80}).encode()+b'\n'); await wr.drain()
    print('handshake reply', await asyncio.wait_for(r.readline(), 1))
    mode = sys.argv[1]
    if mode == 'close_first':
        wr.close(); await wr.wait_closed(); await asyncio.sleep(0.05)
        print('client closed')
    task.cancel()
    done, pending = await asyncio.wait([task], timeout=0.5)
    print('after cancel: serving task done?', bool(done), 'is_serving', srv.is_serving(), 'sock exists', os.path.exists(path))
    if mode == 'close_after':
        wr.close(); await wr.wait_closed()
        done, pending = await asyncio.wait([task], timeout=0.5)
        print('after client close: serving task done?', bool(done), 'sock exists', os.path.exists(path))
    try:
        r2, w2 = await asyncio.wait_for(asyncio.open_unix_connection(path), 0.5); print("connect after stop: SUCCEEDED")
    except Exception as e: print('connect after stop ->', type(e).__name__)
    os._exit(0)
asyncio.run(main())
