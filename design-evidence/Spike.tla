---- MODULE Spike ----
(* Throw-away feasibility spike for L1: FIFO kernel + wrapper + apply spawner + cancel ops. *)
EXTENDS Naturals, Sequences, FiniteSets, TLC, Json, SequencesExt

CONSTANTS Size,      \* pool size (Nat; 99 = unbounded)
          NumReq,    \* number of apply requests issued at init (1 or 2)
          Num,       \* tasks per request
          Budget     \* env ops budget (cancels / cancel_groups)

MaxT == NumReq * Num
PT   == 0 .. MaxT-1            \* pool task ids
Reqs == 1 .. NumReq
Sp(r) == 100 + r               \* spawner task id of request r
SpIds == {Sp(r) : r \in Reqs}
ReqOf(m) == m - 100

VARIABLES ready,     \* Seq of [t, k]
          pc,        \* task -> pc
          tdone,     \* task -> "no" | "ok" | "canc" | "exc"
          must,      \* task -> BOOLEAN
          gate,      \* pool task -> "none"|"pend"|"res"|"canc"
          semw,      \* spawner -> "none"|"pend"|"res"|"canc"
          val, waiters,
          running, cancelled, ended,   \* running is a Seq (insertion order)
          glive, gids, metaRun, metaCanc,
          nstarted, prog,  \* prog[r] = invocations done
          began, sawCancel,
          budget, hist

vars == <<ready, pc, tdone, must, gate, semw, val, waiters, running, cancelled, ended,
          glive, gids, metaRun, metaCanc, nstarted, prog, began, sawCancel, budget, hist>>

AllT == PT \cup SpIds
H(t, k) == [t |-> t, k |-> k]

Obs == [run |-> Len(running), canc |-> Cardinality(cancelled), end |-> Cardinality(ended),
        full |-> (val = 0 \/ \E i \in 1..Len(waiters) : semw[waiters[i]] # "canc"),
        began |-> Cardinality({t \in PT : began[t]}), val |-> val, nready |-> Len(ready)]

Init ==
  /\ ready = [r \in Reqs |-> H(Sp(r), "step")]
  /\ pc = [t \in AllT |-> IF t \in SpIds THEN "new" ELSE "none"]
  /\ tdone = [t \in AllT |-> "no"]
  /\ must = [t \in AllT |-> FALSE]
  /\ gate = [t \in PT |-> "none"]
  /\ semw = [m \in SpIds |-> "none"]
  /\ val = Size /\ waiters = <<>>
  /\ running = <<>> /\ cancelled = {} /\ ended = {}
  /\ glive = [r \in Reqs |-> TRUE] /\ gids = [r \in Reqs |-> {}]
  /\ metaRun = Reqs /\ metaCanc = {}
  /\ nstarted = 0 /\ prog = [r \in Reqs |-> 0]
  /\ began = [t \in PT |-> FALSE] /\ sawCancel = [t \in PT |-> 0]
  /\ budget = Budget
  /\ hist = <<>>

SemLocked(v, w, sw) == v = 0 \/ \E i \in 1..Len(w) : sw[w[i]] # "canc"

\* wake_up_next on (val, waiters, semw, ready): returns record of new values
WakeNext(v, w, sw, rdy) ==
  LET idx == {i \in 1..Len(w) : sw[w[i]] = "pend"} IN
  IF idx = {} THEN [v |-> v, sw |-> sw, rdy |-> rdy]
  ELSE LET i == CHOOSE j \in idx : \A k \in idx : j <= k
           m == w[i] IN
       [v |-> v - 1, sw |-> [sw EXCEPT ![m] = "res"], rdy |-> Append(rdy, H(m, "wake"))]

Release(v, w, sw, rdy) == WakeNext(v + 1, w, sw, rdy)

RemFirst(s, e) == LET i == CHOOSE j \in 1..Len(s) : s[j] = e /\ \A k \in 1..(j-1) : s[k] # e
                     IN SubSeq(s, 1, i-1) \o SubSeq(s, i+1, Len(s))

\* register + create_task
CreateTaskIn(r, st) ==
  LET id == st.nstarted IN
  [st EXCEPT !.nstarted = @ + 1,
             !.gids[r] = @ \cup {id},
             !.glive[r] = TRUE,           \* setdefault re-creates the group
             !.running = Append(@, id),
             !.pc[id] = "new",
             !.ready = Append(@, H(id, "step")),
             !.prog[r] = @ + 1]

\* ---- spawner loop, run inline until it blocks or finishes --------------------------------
\* state record carried through the loop
RECURSIVE SpawnLoop(_, _)
SpawnLoop(r, st) ==
  LET m == Sp(r) IN
  IF st.prog[r] = Num THEN [st EXCEPT !.pc[m] = "done", !.tdone[m] = "ok"]
  ELSE IF SemLocked(st.val, st.waiters, st.semw)
       THEN [st EXCEPT !.pc[m] = "semwait", !.semw[m] = "pend", !.waiters = Append(@, m)]
       ELSE SpawnLoop(r, CreateTaskIn(r, [st EXCEPT !.val = @ - 1]))

Base(rdy) == [ready |-> rdy, pc |-> pc, tdone |-> tdone, must |-> must, gate |-> gate, semw |-> semw,
       val |-> val, waiters |-> waiters, running |-> running, cancelled |-> cancelled, ended |-> ended,
       glive |-> glive, gids |-> gids, nstarted |-> nstarted, prog |-> prog, began |-> began,
       sawCancel |-> sawCancel]
St == Base(Tail(ready))

Commit(st) ==
  /\ ready' = st.ready /\ pc' = st.pc /\ tdone' = st.tdone /\ must' = st.must /\ gate' = st.gate
  /\ semw' = st.semw /\ val' = st.val /\ waiters' = st.waiters /\ running' = st.running
  /\ cancelled' = st.cancelled /\ ended' = st.ended /\ glive' = st.glive /\ gids' = st.gids
  /\ nstarted' = st.nstarted /\ prog' = st.prog /\ began' = st.began /\ sawCancel' = st.sawCancel

\* ---- wrapper ending paths ---------------------------------------------------------------
EndTask(t, st, viaCancel) ==
  LET s1 == IF viaCancel
            THEN [st EXCEPT !.running = RemFirst(@, t), !.ended = @ \cup {t},
                            !.sawCancel[t] = @ + 1]   \* running->cancelled->ended, no cb in spike
            ELSE [st EXCEPT !.running = RemFirst(@, t), !.ended = @ \cup {t}]
      rel == Release(s1.val, s1.waiters, s1.semw, s1.ready)
  IN [s1 EXCEPT !.val = rel.v, !.semw = rel.sw, !.ready = rel.rdy, !.pc[t] = "done", !.tdone[t] = "ok"]

StepPool(t, k, st) ==
  IF st.tdone[t] # "no" THEN st
  ELSE IF st.pc[t] = "new"
  THEN IF st.must[t]
       THEN [st EXCEPT !.tdone[t] = "canc", !.pc[t] = "dead", !.must[t] = FALSE]     \* KF-A: never started
       ELSE [st EXCEPT !.began[t] = TRUE, !.pc[t] = "gate", !.gate[t] = "pend"]
  ELSE IF st.pc[t] = "gate"
  THEN IF st.gate[t] = "canc" \/ st.must[t]
       THEN EndTask(t, [st EXCEPT !.must[t] = FALSE], TRUE)
       ELSE EndTask(t, st, FALSE)
  ELSE st

StepSpawner(m, k, st) ==
  LET r == ReqOf(m) IN
  IF st.tdone[m] # "no" THEN st
  ELSE IF st.pc[m] = "new"
  THEN IF st.must[m] THEN [st EXCEPT !.tdone[m] = "canc", !.pc[m] = "dead", !.must[m] = FALSE]
       ELSE SpawnLoop(r, st)
  ELSE IF st.pc[m] = "semwait"
  THEN LET s0 == [st EXCEPT !.waiters = RemFirst(@, m)] IN
       IF s0.semw[m] = "canc" \/ s0.must[m]
       THEN \* CancelledError inside acquire
            LET s1 == IF s0.semw[m] = "res"
                      THEN LET w == WakeNext(s0.val + 1, s0.waiters, s0.semw, s0.ready)
                           IN [s0 EXCEPT !.val = w.v, !.semw = w.sw, !.ready = w.rdy]
                      ELSE s0
            IN [s1 EXCEPT !.pc[m] = "done", !.tdone[m] = "ok", !.must[m] = FALSE, !.semw[m] = "none"]
       ELSE \* got the slot
            LET s1 == [s0 EXCEPT !.semw[m] = "none"]
                s2 == IF s1.val > 0
                      THEN LET w == WakeNext(s1.val, s1.waiters, s1.semw, s1.ready)
                           IN [s1 EXCEPT !.val = w.v, !.semw = w.sw, !.ready = w.rdy]
                      ELSE s1
            IN SpawnLoop(r, CreateTaskIn(r, s2))
  ELSE st

RunHandle ==
  /\ ready # <<>>
  /\ LET h == Head(ready)
         st == IF h.t \in PT THEN StepPool(h.t, h.k, St) ELSE StepSpawner(h.t, h.k, St)
     IN /\ Commit(st)
        /\ hist' = Append(hist, [a |-> "step", x |-> h.t, o |-> [run |-> Len(st.running),
                         canc |-> Cardinality(st.cancelled), end |-> Cardinality(st.ended),
                         began |-> Cardinality({t \in PT : st.began[t]}), val |-> st.val,
                         nready |-> Len(st.ready)]])
  /\ UNCHANGED <<metaRun, metaCanc, budget>>

\* ---- env ops -----------------------------------------------------------------------------
TaskCancel(t, st) ==
  IF st.tdone[t] # "no" THEN st
  ELSE IF t \in PT /\ st.pc[t] = "gate" /\ st.gate[t] = "pend"
       THEN [st EXCEPT !.gate[t] = "canc", !.ready = Append(@, H(t, "wake"))]
  ELSE IF t \in SpIds /\ st.pc[t] = "semwait" /\ st.semw[t] = "pend"
       THEN [st EXCEPT !.semw[t] = "canc", !.ready = Append(@, H(t, "wake"))]
  ELSE [st EXCEPT !.must[t] = TRUE]

StE == Base(ready)

ObsOf(st) == [run |-> Len(st.running), canc |-> Cardinality(st.cancelled), end |-> Cardinality(st.ended),
              began |-> Cardinality({t \in PT : st.began[t]}), val |-> st.val, nready |-> Len(st.ready)]
EnvRelease(t) ==
  /\ gate[t] = "pend"
  /\ LET st == [StE EXCEPT !.gate[t] = "res", !.ready = Append(@, H(t, "wake"))] IN
     Commit(st) /\ hist' = Append(hist, [a |-> "release", x |-> t, o |-> ObsOf(st)])
  /\ UNCHANGED <<metaRun, metaCanc, budget>>

InRunning(t) == \E i \in 1..Len(running) : running[i] = t

EnvCancel(t) ==
  /\ budget > 0 /\ InRunning(t)
  /\ LET st == TaskCancel(t, StE) IN Commit(st) /\ hist' = Append(hist, [a |-> "cancel", x |-> t, o |-> ObsOf(st)])
  /\ budget' = budget - 1
  /\ UNCHANGED <<metaRun, metaCanc>>

RECURSIVE CancelIds(_, _)
CancelIds(ids, st) ==
  IF ids = {} THEN st
  ELSE LET t == CHOOSE x \in ids : \A y \in ids : x <= y
       IN CancelIds(ids \ {t}, IF \E i \in 1..Len(st.running) : st.running[i] = t
                                THEN TaskCancel(t, st) ELSE st)

EnvCancelGroup(r) ==
  /\ budget > 0 /\ glive[r]
  /\ LET s0 == [StE EXCEPT !.glive[r] = FALSE, !.gids[r] = {}]
         s1 == IF r \in metaRun THEN TaskCancel(Sp(r), s0) ELSE s0
         s2 == CancelIds(gids[r], s1)
     IN Commit(s2) /\ hist' = Append(hist, [a |-> "cancel_group", x |-> r, o |-> ObsOf(s2)])
  /\ metaRun' = metaRun \ {r}
  /\ metaCanc' = IF r \in metaRun THEN metaCanc \cup {r} ELSE metaCanc
  /\ budget' = budget - 1

Next == RunHandle \/ (\E t \in PT : EnvRelease(t) \/ EnvCancel(t)) \/ (\E r \in Reqs : EnvCancelGroup(r))

Spec == Init /\ [][Next]_vars

View == <<ready, pc, tdone, must, gate, semw, val, waiters, running, cancelled, ended,
          glive, gids, metaRun, metaCanc, nstarted, prog, began, sawCancel, budget>>

\* ---- properties ------------------------------------------------------------------------
InFlight == Len(running) + Cardinality(cancelled)
NoStuck == \A i \in 1..Len(running) : tdone[running[i]] = "no"          \* fails: KF-A
Bound == Cardinality({t \in PT : began[t] /\ tdone[t] = "no"}) <= Size /\ Len(running) <= Size
Acct == (ready = <<>>) => (val = Size - InFlight)
NoStartAfterCancel == \A r \in Reqs : TRUE
Quiescent == ready = <<>> /\ \A t \in PT : gate[t] # "pend"
Dump == Quiescent => PrintT(ToJson(hist))
====
