# brute force: scenario with two groups; cancel_group(g1) at every gap index; check C07-ish conditions
import asyncio, logging, threading, itertools, sys
from asyncio import events
from asyncio_taskpool import TaskPool
logging.disable(logging.CRITICAL)

class StepLoop(asyncio.SelectorEventLoop):
    def begin(self):
        self._thread_id = threading.get_ident(); events._set_running_loop(self)
    def end(self):
        events._set_running_loop(None); self._thread_id=None
    def step(self):
        h = self._ready.popleft()
        if not h._cancelled: h._run()

def run(scn, cancel_at, release_order):
    loop = StepLoop(); asyncio.set_event_loop(loop); loop.begin()
    try:
        log=[]; gates={}; pulls={'n':0}
        async def w(g, x):
            log.append(('begin',g,x)); f=loop.create_future(); gates[(g,x)]=f
            try: await f
            except asyncio.CancelledError: log.append(('cancelled',g,x)); raise
            finally: log.append(('fin',g,x))
        def it():
            for i in range(4):
                pulls['n']+=1; yield ('g1', i)
        pool = TaskPool(scn['size'])
        if scn['kind']=='map':
            pool.starmap(w, it(), num_concurrent=scn['nc'], group_name='g1')
        else:
            pool.apply(w, args=('g1',0), num=3, group_name='g1')
        pool.apply(w, args=('g2',0), num=2, group_name='g2')
        n=0; cancelled_at=None; state_at_cancel=None
        rel = list(release_order)
        def maybe_cancel():
            nonlocal cancelled_at, state_at_cancel
            if cancelled_at is None and n==cancel_at:
                pool.cancel_group('g1'); cancelled_at=n
                state_at_cancel=(len([e for e in log if e[0]=='begin' and e[1]=='g1']), pulls['n'])
        for rnd in range(30):
            maybe_cancel()
            while loop._ready:
                loop.step(); n+=1; maybe_cancel()
            # idle: release one gate per round per order
            live=[k for k,f in gates.items() if not f.done()]
            if not live: break
            idx = rel.pop(0) % len(live) if rel else 0
            gates[live[idx]].set_result(None)
        if cancelled_at is None: return None
        begins_g1=len([e for e in log if e[0]=='begin' and e[1]=='g1'])
        # all created g1 tasks that hadn't begun at cancel: may they begin after? property says no further task of g starts
        res={'n':n,'cancel_at':cancelled_at,'begun_before':state_at_cancel[0],'begun_after':begins_g1,'pulls_before':state_at_cancel[1],'pulls_after':pulls['n'],
             'g2_done':len([e for e in log if e[0]=='fin' and e[1]=='g2']),'running':pool.num_running,'free':pool.pool_size,'size':scn['size']}
        try: pool.get_group_ids('g1'); res['g1_known']=True
        except Exception: res['g1_known']=False
        return res
    finally:
        loop.end(); loop.close()

bad=0; tot=0
for scn in [dict(kind='map',size=1,nc=1),dict(kind='map',size=2,nc=2),dict(kind='map',size=3,nc=1),dict(kind='apply',size=1,nc=0),dict(kind='apply',size=2,nc=0)]:
    for ro in itertools.product(range(2), repeat=3):
        for c in range(0,40):
            r=run(scn,c,ro)
            if r is None: break
            tot+=1
            problems=[]
            if r['begun_after']>r['begun_before']: problems.append('g1 task began after cancel')
            if r['pulls_after']>r['pulls_before']: problems.append('iterator advanced after cancel')
            if r['g2_done']!=2: problems.append('g2 incomplete')
            if r['g1_known']: problems.append('g1 still known')
            if r['running']!=0 or r['free']!=scn['size']: problems.append(f"leak running={r['running']} free={r['free']}")
            if problems:
                bad+=1
                if bad<=25: print(scn, ro, r, problems)
print('total',tot,'bad',bad)
