import asyncio, warnings, logging
from asyncio_taskpool import TaskPool, SimpleTaskPool
logging.disable(logging.CRITICAL)

async def work(ev, log, tag):
    log.append(('start', tag))
    try:
        await ev.wait()
    finally:
        log.append(('end', tag))

async def t_cancel_before_first_step():
    log=[]; ev=asyncio.Event()
    ends=[]
    pool = TaskPool(2)
    g = pool.apply(work, args=(ev, log, 'a'), num=1, end_callback=ends.append)
    await asyncio.sleep(0)   # spawner ran, T0 created but not stepped?
    print('running', pool.num_running, 'log', log)
    pool.cancel(0)
    await asyncio.sleep(0); await asyncio.sleep(0); await asyncio.sleep(0)
    print('after cancel: running', pool.num_running, 'cancelled', pool.num_cancelled, 'ended', pool.num_ended, 'ends', ends, 'log', log, 'size', pool.pool_size, 'full', pool.is_full)
    ev.set()
    # capacity probe
    log2=[]; ev2=asyncio.Event()
    pool.apply(work, args=(ev2, log2, 'b'), num=2)
    for _ in range(5): await asyncio.sleep(0)
    print('probe started', len([x for x in log2 if x[0]=='start']), 'of 2')
    ev2.set()
    try:
        await asyncio.wait_for(pool.gather_and_close(), 1)
        print("closed ok")
    except Exception as e:
        print('gather_and_close ->', type(e).__name__, e)

asyncio.run(t_cancel_before_first_step())
