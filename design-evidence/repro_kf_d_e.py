import asyncio, warnings, logging
from asyncio_taskpool import TaskPool, SimpleTaskPool
logging.disable(logging.CRITICAL)

async def work(ev, log, tag):
    log.append(('start', tag))
    try:
        await ev.wait()
    finally:
        log.append(('end', tag))

async def tick(n=5):
    for _ in range(n): await asyncio.sleep(0)

async def E_lock_after_accept():
    print("== E: apply then immediate gather_and_close")
    log=[]; ev=asyncio.Event(); ev.set()
    pool = TaskPool(2)
    pool.apply(work, args=(ev, log, 'a'), num=3)
    try:
        await asyncio.wait_for(pool.gather_and_close(), 1)
        print("closed ok", log)
    except Exception as e:
        print('gather_and_close ->', type(e).__name__, e, log)
    print("== E2: apply(num=3) size 1, tick, lock, let finish")
    log=[]; ev=asyncio.Event()
    pool = TaskPool(1)
    pool.apply(work, args=(ev, log, 'a'), num=3)
    await tick()
    pool.lock()
    ev.set()
    await tick(10)
    print(log, pool.num_running, pool.num_ended)
    try:
        await asyncio.wait_for(pool.gather_and_close(), 1)
        print("closed ok", log)
    except Exception as e:
        print('gather_and_close ->', type(e).__name__, e, log)
    print("== E3: map size 1, 3 elements, tick, gather_and_close")
    log=[]; ev=asyncio.Event()
    pool = TaskPool(1)
    pool.map(lambda *a: None, [1]) if False else None
    async def w(x):
        log.append(('start', x)); await ev.wait(); log.append(('end', x))
    pool.map(w, [1,2,3], num_concurrent=2)
    await tick()
    ev.set()
    try:
        await asyncio.wait_for(pool.gather_and_close(), 1)
        print("closed ok", log)
    except Exception as e:
        print('gather_and_close ->', type(e).__name__, e, log)

async def D_cancelled_spawner():
    print("== D: map running + apply cancelled before spawner start + gather_and_close")
    log=[]; ev=asyncio.Event()
    pool = TaskPool(1)
    async def w(x):
        log.append(('start', x)); await asyncio.sleep(0); await asyncio.sleep(0); log.append(('end', x))
    pool.map(w, [1,2,3,4], num_concurrent=1)
    await tick(1)
    g = pool.apply(w, args=('x',), num=1)
    pool.cancel_group(g)
    try:
        await asyncio.wait_for(pool.gather_and_close(), 1)
        print("closed ok; log at return:", list(log))
    except Exception as e:
        print('gather_and_close ->', type(e).__name__, e, log)
    await tick(20)
    print("log later:", log)

async def main():
    await E_lock_after_accept()
    await D_cancelled_spawner()
asyncio.run(main())
