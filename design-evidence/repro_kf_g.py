import io
from asyncio_taskpool import TaskPool, SimpleTaskPool
from asyncio_taskpool.control.parser import ControlParser
for cls in (TaskPool, SimpleTaskPool):
    buf = io.StringIO()
    p = ControlParser(stream=buf, terminal_width=80, prog="", usage="x")
    p.add_subparsers(title="Commands")
    try:
        d = p.add_class_commands(cls)
        print(cls.__name__, sorted(d))
    except Exception as e:
        import traceback; traceback.print_exc()
