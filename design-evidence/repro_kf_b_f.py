import asyncio, logging
from asyncio_taskpool import TaskPool, SimpleTaskPool
logging.disable(logging.CRITICAL)
async def tick(n=5):
    for _ in range(n): await asyncio.sleep(0)

async def B():
    print("== B pool_size")
    ev=asyncio.Event(); log=[]
    async def w(x):
        log.append(('start',x)); await ev.wait(); log.append(('end',x))
    pool=TaskPool(3)
    pool.apply(w, args=(1,), num=2); await tick()
    print("size 3, 2 running: pool_size reports", pool.pool_size, 'is_full', pool.is_full)
    pool.pool_size = 3
    pool.apply(w, args=(2,), num=5); await tick()
    print("after re-assigning 3: running", pool.num_running, "(limit 3)")
    # increase with waiters
    pool2=TaskPool(1); ev2=asyncio.Event(); log2=[]
    async def w2(x):
        log2.append(('start',x)); await ev2.wait()
    pool2.apply(w2, args=(1,), num=3); await tick()
    print("pool2 running", pool2.num_running)
    pool2.pool_size = 3; await tick()
    print("pool2 after raise to 3: running", pool2.num_running, 'is_full', pool2.is_full, 'size', pool2.pool_size)
    ev.set(); ev2.set(); await tick(10)
    print("pool2 later running", pool2.num_running, log2)
    # lower
    pool3=TaskPool(3); ev3=asyncio.Event(); log3=[]
    async def w3(x):
        log3.append(('start',x)); await ev3.wait()
    pool3.apply(w3, args=(1,), num=3); await tick()
    pool3.pool_size=1
    pool3.apply(w3, args=(2,), num=1); await tick()
    print("pool3 lowered to 1 with 3 running: running", pool3.num_running)
    for p in (pool,pool2,pool3):
        p.cancel_all()
    await tick(10)

async def F():
    print("== F flush race")
    evA=asyncio.Event(); evB=asyncio.Event(); cbgate=asyncio.Event(); log=[]
    async def w(ev):
        await ev.wait()
    async def slow_end(i):
        log.append(('endcb-start',i)); await cbgate.wait(); log.append(('endcb-done',i))
    cgate=asyncio.Event()
    async def slow_cancel(i):
        log.append(('ccb-start',i)); await cgate.wait(); log.append(('ccb-done',i))
    pool=TaskPool(2)
    pool.apply(w, args=(evA,), end_callback=slow_end, cancel_callback=slow_cancel)
    pool.apply(w, args=(evB,), end_callback=slow_end, cancel_callback=slow_cancel)
    await tick()
    evA.set(); await tick()     # A ended, in slow end cb
    print('ended', pool.num_ended, log)
    fl = asyncio.create_task(pool.flush()); await tick()
    pool.cancel(1); await tick()   # B cancelled, in slow cancel cb
    print('cancelled', pool.num_cancelled, log)
    cbgate.set(); await tick()    # A's end cb completes -> flush completes, clears cancelled
    print('flush done', fl.done(), 'cancelled', pool.num_cancelled, 'running', pool.num_running, 'ended', pool.num_ended)
    cgate.set(); await tick()
    print(log, 'running', pool.num_running, 'ended', pool.num_ended, 'full', pool.is_full, 'size', pool.pool_size)
    t = pool._tasks_running
    try:
        await asyncio.wait_for(pool.gather_and_close(), 1); print('closed ok')
    except Exception as e: print('gac ->', type(e).__name__, e)

async def main():
    await B(); await F()
asyncio.run(main())
