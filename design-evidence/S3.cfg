CONSTANTS Size = 2 NumReq = 2 Num = 2 Budget = 3
INIT Init
NEXT Next
VIEW View
INVARIANT Bound
INVARIANT Acct
INVARIANT Dump
CHECK_DEADLOCK FALSE
