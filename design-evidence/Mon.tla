---- MODULE Mon ----
EXTENDS Naturals, Sequences, TLC, TLCExt, Json, IOUtils, FiniteSets
Traces == JsonDeserialize(IOEnv.TRACE_FILE)
VARIABLES tid, i, viol, maxrun
vars == <<tid, i, viol, maxrun>>
Init == tid \in 1..Len(Traces) /\ i = 0 /\ viol = {} /\ maxrun = 0
Rec == Traces[tid].steps[i+1]
Clauses(r, sz) == { c \in {"C01.reported", "C03.sum", "C02.acct"} :
                     \/ (c = "C01.reported" /\ r.run > sz)
                     \/ (c = "C03.sum" /\ r.run + r.canc + r.end > 4)
                     \/ (c = "C02.acct" /\ r.val + r.run + r.canc # sz) }
Next == /\ i < Len(Traces[tid].steps)
        /\ i' = i + 1
        /\ viol' = viol \cup { <<c, i+1>> : c \in Clauses(Rec, Traces[tid].size) }
        /\ maxrun' = IF Rec.run > maxrun THEN Rec.run ELSE maxrun
        /\ UNCHANGED tid
Done == i = Len(Traces[tid].steps)
Emit == Done => PrintT(ToJson([tid |-> Traces[tid].id, viol |-> viol, maxrun |-> maxrun]))
====
