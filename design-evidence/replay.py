import asyncio, logging, threading, json, sys
from asyncio import events
from asyncio_taskpool import TaskPool
logging.disable(logging.CRITICAL)
class StepLoop(asyncio.SelectorEventLoop):
    def begin(self):
        self._thread_id = threading.get_ident(); events._set_running_loop(self)
    def end(self):
        events._set_running_loop(None); self._thread_id=None
    def step(self):
        h = self._ready.popleft()
        if not h._cancelled: h._run()
        return h
def run(hist, size, nreq, num):
    loop = StepLoop(); asyncio.set_event_loop(loop); loop.begin()
    try:
        gates={}; began=set()
        async def w():
            tid=int(asyncio.current_task().get_name().rsplit('-',1)[1]); began.add(tid)
            f=loop.create_future(); gates[tid]=f
            await f
        pool=TaskPool(size if size<99 else float('inf'))
        for r in range(1,nreq+1): pool.apply(w, num=num, group_name=f'g{r}')
        def obs(): return dict(run=pool.num_running, canc=pool.num_cancelled, end=pool.num_ended, began=len(began), val=pool._enough_room._value, nready=len(loop._ready))
        for k,rec in enumerate(hist):
            a,x,o=rec['a'],rec['x'],rec['o']
            try:
                if a=='step':
                    h=loop.step()
                    s=getattr(h._callback,'__self__',None); name=s.get_name() if isinstance(s,asyncio.Task) else '?'
                elif a=='release': gates[x].set_result(None)
                elif a=='cancel': pool.cancel(x)
                elif a=='cancel_group': pool.cancel_group(f'g{x}')
            except Exception as e:
                return (k, rec, 'EXC '+type(e).__name__+str(e))
            got=obs()
            if got!={kk:o[kk] for kk in got}:
                return (k, rec, got)
        return None
    finally:
        # drain
        for t in asyncio.all_tasks(loop): t.cancel()
        n=0
        while loop._ready and n<1000: loop.step(); n+=1
        loop.end(); loop.close()
if __name__=='__main__':
    fn,size,nreq,num=sys.argv[1],int(sys.argv[2]),int(sys.argv[3]),int(sys.argv[4])
    bad=0; tot=0
    import warnings; warnings.simplefilter('ignore')
    for line in open(fn):
        hist=json.loads(json.loads(line))
        tot+=1
        r=run(hist,size,nreq,num)
        if r:
            bad+=1
            if bad<=5: print('MISMATCH at',r[0],r[1],'got',r[2]); print('   hist:',[(h['a'],h['x']) for h in hist[:r[0]+1]])
    print('replayed',tot,'mismatches',bad)
