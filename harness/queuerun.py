"""Run schedules of spec/QueueCtx.tla on the real asyncio_taskpool.queue_context.Queue (single-step loop)."""
from __future__ import annotations

import asyncio
import json
import logging
import os
import sys

HERE = os.path.dirname(os.path.abspath(__file__))
sys.path.insert(0, HERE)
from steploop import StepLoop  # noqa: E402

REPO = os.environ.get("VERIF_REPO", "/repo")
if os.path.join(REPO, "src") not in sys.path:
    sys.path.insert(0, os.path.join(REPO, "src"))
logging.disable(logging.CRITICAL)


class Boom(Exception):
    pass


# what is put into the queue for item number i: the first few are falsy values (None is a popular end-of-work sentinel)
_FALSY = {0: None, 1: 0, 2: "", 3: (), 4: False}


def payload(i):
    return _FALSY.get(i, i + 100)


def index_of(item):
    for i, v in _FALSY.items():
        if item is v or (type(item) is type(v) and item == v and v is not None):
            return i
    return item - 100 if isinstance(item, int) else -1


class QWorld:
    def __init__(self):
        from asyncio_taskpool.queue_context import Queue
        self.loop = StepLoop()
        self.loop.begin()
        self.loop.set_exception_handler(lambda l, c: None)
        self.q = Queue()
        self.trace = []
        self.cons = {}
        self.gates = {}
        self.joins = []
        self.nput = 0
        self.drift = None
        self.skipped = 0

    def ev(self, _e, **f):
        rec = {"e": _e}
        rec.update(f)
        rec["qsize"] = self.q.qsize()
        self.trace.append(rec)

    async def consumer(self, c):
        entered = False
        try:
            async with self.q as item:
                entered = True
                self.ev("enter", c=c, item=index_of(item))
                fut = self.loop.create_future()
                self.gates[c] = fut
                out = await fut
                if out == "exc":
                    raise Boom()
        except asyncio.CancelledError:
            if entered:
                self.ev("exit", c=c, how="canc", verr=False)
            else:
                self.ev("cwait", c=c)
        except Boom:
            self.ev("exit", c=c, how="exc", verr=False)
        except ValueError:
            self.ev("exit", c=c, how="err", verr=True)
        else:
            self.ev("exit", c=c, how="ret", verr=False)

    async def consumer2(self, c):
        """One task holding two items at once (nested blocks); the inner block is reported as consumer c + 50."""
        state = 0
        try:
            async with self.q as a:
                state = 1
                self.ev("enter", c=c, item=index_of(a))
                try:
                    async with self.q as b:
                        state = 2
                        self.ev("enter", c=c + 50, item=index_of(b))
                        fut = self.loop.create_future()
                        self.gates[c] = fut
                        out = await fut
                        if out == "exc":
                            raise Boom()
                finally:
                    if state == 2:
                        self.ev("exit", c=c + 50, how="nested", verr=False)
                        state = 1
        except asyncio.CancelledError:
            self.ev("exit", c=c, how="canc", verr=False) if state else self.ev("cwait", c=c)
        except Boom:
            self.ev("exit", c=c, how="exc", verr=False)
        except (ValueError, KeyError) as e:
            self.ev("exit", c=c, how="err", verr=True)
        else:
            self.ev("exit", c=c, how="ret", verr=False)

    async def joiner(self, j):
        self.ev("jbegin", j=j)
        await self.q.join()
        self.ev("jdone", j=j)

    def do_op(self, op):
        o = op["o"]
        if o == "put":
            i = self.nput
            self.nput += 1
            self.q.put_nowait(payload(i))
            self.ev("put", i=i)
        elif o == "consume":
            c = op["c"]
            self.cons[c] = self.loop.create_task(self.consumer2(c) if op.get("nested") else self.consumer(c), name="C%d" % c)
            self.ev("consume", c=c)
        elif o == "join":
            j = len(self.joins)
            self.joins.append(self.loop.create_task(self.joiner(j), name="J%d" % j))
            self.ev("join", j=j)
        elif o == "release":
            f = self.gates.get(op["c"])
            eff = f is not None and not f.done()
            if eff:
                f.set_result(op["out"])
            else:
                self.skipped += 1
            self.ev("release", c=op["c"], out=op["out"], eff=eff)
        elif o == "cancel":
            t = self.cons.get(op["c"])
            eff = t is not None and not t.done()
            if eff:
                t.cancel()
            else:
                self.skipped += 1
            self.ev("cancel", c=op["c"], eff=eff)
        else:
            raise ValueError(o)

    def step(self):
        h = self.loop.step()
        if h is None:
            self.skipped += 1
            return
        self.ev("h", idle=self.loop.idle())

    def compare(self, pred):
        if self.drift is not None:
            return
        got = {"qsize": self.q.qsize(), "nready": self.loop.nready(), "unf": getattr(self.q, "_unfinished_tasks", -9)}
        bad = {k: (pred[k], got[k]) for k in pred if k in got and pred[k] != got[k]}
        if bad:
            self.drift = {"pos": self.pos, "diff": bad}

    def run(self, cmds):
        for self.pos, c in enumerate(cmds):
            k = c["c"]
            if k == "step":
                self.step()
            elif k == "op":
                self.do_op(c["op"])
            elif k == "end":
                self.compare(c["o"])
            elif k == "drain":
                self.drain()
        # closing probe
        verr = False
        try:
            self.q.task_done()
        except ValueError:
            verr = True
        self.ev("final", probe_verr=verr)

    def drain(self):
        for _ in range(200):
            while not self.loop.idle():
                self.step()
            pend = [c for c, f in sorted(self.gates.items()) if not f.done() and not self.cons[c].done()]
            if pend:
                self.do_op({"o": "release", "c": pend[0], "out": "ret"})
                continue
            waiting = [c for c, t in sorted(self.cons.items()) if not t.done()]
            if waiting and self.q.qsize() == 0:
                # consumers still waiting for an item: feed them so that every block gets to exit
                self.do_op({"o": "put"})
                continue
            break
        while not self.loop.idle():
            self.step()
        if self.loop.idle():
            self.ev("h", idle=True)

    def close(self):
        self.loop.shutdown()


def execute(sched):
    w = QWorld()
    try:
        w.run(sched["cmds"])
        return {"ok": True, "trace": w.trace, "drift": w.drift, "skipped": w.skipped}
    except Exception as e:
        import traceback
        return {"ok": False, "err": "%s: %s" % (type(e).__name__, e), "tb": traceback.format_exc(), "trace": w.trace}
    finally:
        w.close()
