"""Functions reachable by dotted path from control-server command lines (harness-owned user code; twin copy used by the directly-driven twin pool)."""
import asyncio

CALLS = []          # (name, args, kwargs) in call order; the harness swaps this list per pool
GATES = []          # futures the workers wait on


def _log(name, a, kw):
    CALLS.append((name, repr(a), repr(sorted(kw.items()))))


async def work(*a, **kw):
    """A worker that waits until it is cancelled (or its gate is released)."""
    _log("work", a, kw)
    fut = asyncio.get_running_loop().create_future()
    GATES.append(fut)
    try:
        await fut
    except asyncio.CancelledError as e:
        _log("work-cancelled", e.args, {})      # what the cancellation carried (the msg parameter of cancel/stop/...)
        raise


async def quick(*a, **kw):
    """A worker that returns at once."""
    _log("quick", a, kw)
    return None


async def fail(*a, **kw):
    """A worker that raises at once."""
    _log("fail", a, kw)
    raise RuntimeError("boom")


async def failnl(*a, **kw):
    """A worker that raises at once, with a message that ends in a newline."""
    _log("failnl", a, kw)
    raise RuntimeError("boom with a newline at the end\n")


async def _quiet(*a, **kw):
    """A worker whose name starts with an underscore (a dotted path may name it all the same)."""
    _log("_quiet", a, kw)
    return None


def _logged(fn):
    import functools

    @functools.wraps(fn)
    async def wrapper(*a, **kw):
        _log("decorator", a, kw)
        return await fn(*a, **kw)
    return wrapper


@_logged
async def decorated(*a, **kw):
    """A worker behind a functools.wraps decorator (a dotted path names the decorated function, not the bare one)."""
    _log("decorated", a, kw)
    return None


async def mutate(*a, **kw):
    """A worker that empties the containers it is given (after logging them)."""
    _log("mutate", a, kw)
    for x in a:
        if isinstance(x, list):
            x.clear()
    return None


class _Holder:
    async def run(self, *a, **kw):
        _log("holder.run", a, kw)
        return None


holder = _Holder()      # "ctlfuncs.holder.run" names a bound method
Quick = object()        # siblings that differ from a function's name in case only
WORK = 1


def plain(*a, **kw):
    """Not a coroutine function."""
    _log("plain", a, kw)


def cb(task_id):
    _log("cb", (task_id,), {})
