"""Functions reachable only as ctlpkg.sub.<name>."""


async def quick2(*a, **kw):
    """Returns at once; leaves no log (the pool's own bookkeeping shows that it ran)."""
    return None
