"""A harness-owned package whose submodule is NOT imported by the package itself (dotted paths into it need the fallback import)."""
