"""Single-stepping of a real asyncio event loop, one ready handle at a time.

The loop is a real ``SelectorEventLoop`` (so Tasks, Futures, Semaphores, gather, streams are
CPython's own); it is never ``run_forever()``: the harness marks it as running and pops handles
from ``_ready`` itself.  Between two handles ("gap") the harness may do whatever a user task
scheduled at that queue position could do.  Timers (``call_later``) are served in virtual time:
when the ready queue is empty and timers exist, ``advance()`` moves the earliest due timer over.

Trusted base: ``BaseEventLoop._ready`` / ``_scheduled`` and ``Handle._run`` of CPython 3.12.
"""
from __future__ import annotations

import asyncio
import gc
import heapq
import threading
import warnings
from asyncio import events


class StepLoop(asyncio.SelectorEventLoop):
    def __init__(self):
        super().__init__()
        self._vtime = 0.0
        self.handles_run = 0
        self._xjobs = []          # futures of run_in_executor() calls that have not delivered their result yet

    # -- virtual clock ---------------------------------------------------------------------
    def time(self):
        return self._vtime

    # -- manual running --------------------------------------------------------------------
    def begin(self):
        self._thread_id = threading.get_ident()
        events._set_running_loop(self)
        asyncio.set_event_loop(self)

    def end(self):
        events._set_running_loop(None)
        self._thread_id = None

    def run_in_executor(self, executor, func, *args):
        fut = super().run_in_executor(executor, func, *args)
        self._xjobs.append(fut)
        return fut

    def _settle_threads(self, bound=10.0):
        """Code under test may hand work to a thread (run_in_executor): the loop is not idle while such a job is in flight -
        wait (bounded, real time) until its completion callback has arrived in the ready queue."""
        import time as _t
        end = _t.time() + bound
        while True:
            self._xjobs = [f for f in self._xjobs if not f.done()]
            if not self._xjobs or any(not h._cancelled for h in self._ready) or _t.time() > end:
                return
            _t.sleep(0.0005)

    def nready(self):
        if self._xjobs:
            self._settle_threads()
        return sum(1 for h in self._ready if not h._cancelled)

    def idle(self):
        return self.nready() == 0

    def step(self):
        """Run exactly one (non-cancelled) ready handle; return it, or None when there is none."""
        if self._xjobs:
            self._settle_threads()
        while self._ready:
            h = self._ready.popleft()
            if h._cancelled:
                continue
            self.handles_run += 1
            h._run()
            return h
        return None

    def advance(self):
        """Move the earliest timer to the ready queue (virtual time). Returns True if one was moved."""
        while self._scheduled:
            th = heapq.heappop(self._scheduled)
            th._scheduled = False
            if th._cancelled:
                continue
            self._vtime = max(self._vtime, th._when)
            self._ready.append(th)
            return True
        return False

    def run_idle(self, limit=100000, timers=True):
        n = 0
        while n < limit:
            if self.step() is None:
                if not (timers and self.advance()):
                    break
            n += 1
        return n

    def poll_io(self, timeout=0):
        """Process selector events once (only used by socket-based harnesses)."""
        event_list = self._selector.select(timeout)
        self._process_events(event_list)

    @staticmethod
    def handle_task(h):
        s = getattr(h._callback, "__self__", None)
        if isinstance(s, asyncio.Task):
            return s
        return None

    def shutdown(self):
        """Cancel everything still alive, run what that schedules, close."""
        try:
            for _ in range(5):
                ts = [t for t in asyncio.all_tasks(self) if not t.done()]
                if not ts:
                    break
                for t in ts:
                    t.cancel()
                self.run_idle(limit=20000)
            self.run_idle(limit=20000)
        finally:
            self.end()
            self.set_exception_handler(lambda *a: None)
            self.close()
            # coroutines kept alive only by reference cycles are finalised now, not at interpreter shutdown
            with warnings.catch_warnings():
                warnings.simplefilter("ignore")
                gc.collect()
