"""Drive real ControlSessions (asyncio_taskpool.control) deterministically: in-memory streams on the single-step loop.

A script is a list of commands; the result is a flat trace of observation records that the TLA+ specifications
(spec/Control.tla via spec/ControlTrace.tla) judge.  For C17 every well-formed command line is also performed as a
direct method call on a TWIN pool of the same class (same name, same state-building history); the trace carries both
pools' observable state and the str() of the twin's result, so that TLC can check "command == method call".
"""
from __future__ import annotations

import ast
import asyncio
import re
import contextlib
import functools
import importlib
import inspect
import io
import json
import logging
import math
import os
import sys

HERE = os.path.dirname(os.path.abspath(__file__))
sys.path.insert(0, HERE)
from steploop import StepLoop  # noqa: E402

REPO = os.environ.get("VERIF_REPO", "/repo")
if os.path.join(REPO, "src") not in sys.path:
    sys.path.insert(0, os.path.join(REPO, "src"))
logging.disable(logging.CRITICAL)

import ctlfuncs  # noqa: E402
import ctlfuncs_twin  # noqa: E402


_ADDR = re.compile(r"0x[0-9a-fA-F]+")


def _ascii(v):
    """Trace records carry ASCII only (non-ASCII characters as <U+XXXX>): both sides of every comparison are mapped alike, and
    the TLA+ side never depends on how TLC and its JSON module treat characters outside ASCII."""
    if isinstance(v, str):
        if v.isascii():
            return v
        return "".join(ch if ord(ch) < 127 else "<U+%04X>" % ord(ch) for ch in v)
    if isinstance(v, list):
        return [_ascii(x) for x in v]
    return v


def norm(text):
    """Object addresses differ between the served pool's and the twin's objects: not part of the comparison."""
    return _ADDR.sub("0x?", text.replace("ctlfuncs_twin", "ctlfuncs"))


class FakeWriter:
    """The part of asyncio.StreamWriter a session uses; records every write."""

    def __init__(self, world, s):
        self.world, self.s, self.closed = world, s, False

    def write(self, data):
        self.world.on_write(self.s, bytes(data))

    async def drain(self):
        return None

    def close(self):
        if not self.closed:
            self.closed = True
            self.world.ev("closed", s=self.s)

    def is_closing(self):
        return self.closed

    async def wait_closed(self):
        return None

    def get_extra_info(self, *a, **k):
        return None


class StubServer:
    def __init__(self):
        self.serving = True

    def is_serving(self):
        return self.serving


def make_pool(cls_name, mod, size=3):
    from asyncio_taskpool import SimpleTaskPool, TaskPool
    if cls_name == "TaskPool":
        return TaskPool(pool_size=size, name="ctl")
    if cls_name == "SimpleTaskPool":
        return SimpleTaskPool(mod.work, args=("a",), kwargs={"k": 1}, pool_size=size, name="ctl")
    if cls_name == "SubPool":         # a subclass adding a public method and a public property (postponed annotations)
        import types
        m = sys.modules.get("ctl_subpool")
        if m is None or getattr(m, "_TaskPool", None) is not TaskPool:
            m = types.ModuleType("ctl_subpool")      # a real module, so that inspect.getdoc can find inherited docstrings
            m.TaskPool = m._TaskPool = TaskPool
            exec(SUBCLASS_SRC, m.__dict__)
            sys.modules["ctl_subpool"] = m
        return m.SubPool(pool_size=size, name="ctl")
    if cls_name == "SubPool2":
        import types
        m = sys.modules.get("ctl_subpool2")
        if m is None or getattr(m, "_Base", None) is not SimpleTaskPool:
            m = types.ModuleType("ctl_subpool2")
            m.SimpleTaskPool = m._Base = SimpleTaskPool
            # (dont_inherit: this file's own "from __future__ import annotations" must not leak into the subclass module)
            exec(compile(SUBCLASS2_SRC, "<ctl_subpool2>", "exec", dont_inherit=True), m.__dict__)
            sys.modules["ctl_subpool2"] = m
        return m.SubPool2(mod.work, args=("a",), kwargs={"k": 1}, pool_size=size, name="ctl")
    raise ValueError(cls_name)


SUBCLASS_SRC = '''
from __future__ import annotations
class SubPool(TaskPool):
    """A pool with two extra public members."""
    def extra_method(self, number: int, label: str = "x") -> str:
        """Returns a label."""
        return f"{label}-{number}"
    @property
    def extra_prop(self) -> int:
        """An extra read-only property."""
        return 42
    def tune(self, level: int = 1, label: str = "x", limit: int = 3) -> str:
        """Three options with the same initial letter."""
        return f"{level}/{label}/{limit}"
    def scale(self, f: int, el: str = "m") -> str:
        """Parameters whose names are pieces of the word self."""
        return f"{f}{el}"
    def blank_doc(self, flag: bool = False) -> None:
        """ """
    def no_doc(self):
        return None
    @property
    def bare_prop(self):
        return 1
    def _hidden(self) -> None:
        """Not public."""
    # overrides without a docstring of their own: the description is inherited (inspect.getdoc)
    def lock(self) -> None:
        self._lock_count = getattr(self, "_lock_count", 0) + 1
        super().lock()
    @property
    def lock_count(self) -> int:
        """How often this pool has been locked (the override above counts)."""
        return getattr(self, "_lock_count", 0)
    @staticmethod
    def version() -> str:
        """A public static method."""
        return "sub-1.0"
'''

# a second subclass, in a module WITHOUT postponed annotations: its annotations are evaluated objects (typing generics ...)
SUBCLASS2_SRC = '''
from typing import Any, Iterable
class SubPool2(SimpleTaskPool):
    """A pool whose extra members carry evaluated annotations."""
    def feed(self, items: Iterable[Any], flag: bool = False) -> int:
        """Counts the items of a literal container."""
        return len(list(items)) + (100 if flag else 0)
    def trace(self, *, function: str = "f", self_: int = 0) -> str:
        """Keyword-only parameters with awkward names."""
        return f"{function}/{self_}"
    @property
    def ratio(self) -> float:
        """A float property that can be set."""
        return getattr(self, "_ratio", 0.5)
    @ratio.setter
    def ratio(self, new_ratio: float) -> None:
        self._ratio = new_ratio
'''


class CtlWorld:
    def __init__(self, cls_name, size=3, twin=True):
        from asyncio_taskpool.control.server import TCPControlServer
        self.trace = []
        self.loop = StepLoop()
        self.loop.begin()
        self.loop.set_exception_handler(lambda loop, ctx: self.loop_errors.append(str(ctx.get("message"))))
        self.loop_errors = []
        ctlfuncs.CALLS, ctlfuncs.GATES = [], []
        ctlfuncs_twin.CALLS, ctlfuncs_twin.GATES = [], []
        self.cls_name = cls_name
        self.pool = make_pool(cls_name, ctlfuncs, size)
        self.twin = make_pool(cls_name, ctlfuncs_twin, size) if twin else None
        self.server = TCPControlServer(self.pool, "127.0.0.1", 0)
        self.stub = StubServer()
        self.server._server = self.stub          # in-memory: no socket, "is_serving" is ours
        self.sessions = {}
        self.sent = {}
        self.twin_tasks = []
        self.await_pairs = []
        self.shutting = False
        self.out, self.err = io.StringIO(), io.StringIO()
        self.ev("init", cls=cls_name, ps=str(self.pool), public=self.public_members())

    # -- reflection: the command surface the property promises ---------------------------------------------
    def public_members(self):
        out = []
        for name, member in inspect.getmembers(type(self.pool)):
            if name.startswith("_"):
                continue
            if inspect.isfunction(member) or isinstance(member, (property, functools.cached_property)):
                out.append(name)
        return sorted(out)

    def member_doc(self, dashed_name):
        """First docstring line of a public method / read-only property (what its help is expected to show)."""
        m = getattr(type(self.pool), dashed_name.replace("-", "_"), None)
        if isinstance(m, property):
            if m.fset is not None:
                return ""
            m = m.fget
        d = inspect.getdoc(m) if m is not None else None
        if not d or not d.strip():
            return ""
        return d.strip().split("\n", 1)[0].strip()

    def nonpublic_members(self):
        return sorted(n for n, m in inspect.getmembers(type(self.pool))
                      if n.startswith("_") and not n.startswith("__") and (inspect.isfunction(m) or isinstance(m, property)))

    # -- observation -------------------------------------------------------------------------------------------
    @staticmethod
    def pobs(pool):
        try:
            size = pool.pool_size
            groups = []
            for g in sorted(getattr(pool, "_task_groups", {})):
                groups.append((g, sorted(pool.get_group_ids(g))))
            return repr((pool.num_running, pool.num_cancelled, pool.num_ended, bool(pool.is_locked), bool(pool.is_full),
                         -1 if size == math.inf else size, groups))
        except Exception as e:
            return "ERR " + type(e).__name__

    def ev(self, _e, **f):
        rec = {"e": _e}
        rec.update({k: _ascii(v) for k, v in f.items()})
        rec["pobs"] = _ascii(self.pobs(self.pool))
        rec["tobs"] = _ascii(self.pobs(self.twin)) if getattr(self, "twin", None) is not None else ""
        self.trace.append(rec)
        return rec

    def on_write(self, s, data):
        st = self.sessions[s]
        st["writes"] += 1
        text = norm(data.decode("utf8", "replace"))
        usage = ""
        if text.startswith("usage: "):
            usage = text[7:].split()[0] if len(text) > 7 and text[7:].split() else ""
        doc = st["unanswered"][0][2] if (st["writes"] > 1 and st["unanswered"]) else ""
        # help text is wrapped to the terminal width, and doc markup (`x`, :meth:`y`, *z*) may or may not be shown verbatim:
        # "describes it" = the words of the docstring's first line appear, in order
        squeeze = lambda x: "".join(re.sub(r":[a-z]+:|[`*]", "", x).split()).lower()

        def described(doc, text):
            # most of the words of the docstring's summary line show up in the help page (a verbatim copy is not demanded:
            # a maintainer may strip markup or cross references such as "(see below)" from what the client is shown)
            words = [w.lower() for w in re.findall(r"[A-Za-z_]{4,}", re.sub(r":[a-z]+:|[`*]", "", doc))]
            if not words:
                return squeeze(doc) in squeeze(text)
            sq = squeeze(text)
            return sum(1 for w in words if w in sq) * 10 >= len(words) * 6
        self.ev("write", s=s, k=st["writes"], text=text, nl=data.endswith(b"\n") and data.count(b"\n") >= 1,
                usage=usage, hashelp=("-h, --help" in text), invalid=(": error:" in text),
                hasdoc=bool(doc) and described(doc, text))
        # bookkeeping for commands whose method waits: pair the reply with the twin's result once both exist
        if st["writes"] > 1 and st["unanswered"]:
            k, tw, _doc, deferred = st["unanswered"].pop(0)
            if deferred is not None and self.twin is not None:
                # the line had been sent while the session was busy: the twin performs the call only now, in the
                # order in which the served pool has just performed it
                twk, twin_res = self.twin_call(deferred)
                if twk == "await":
                    tw = int(twin_res)
                elif twk != "converr":
                    self.ev("acmp", s=s, k=k, text=text, twk=twk, twin=norm(twin_res))
            if tw is not None:
                self.await_pairs.append({"s": s, "k": k, "text": text, "tw": tw})

    # -- commands -------------------------------------------------------------------------------------------------
    def connect(self, s, width=80, handshake=True, style=0):
        reader = asyncio.StreamReader()
        writer = FakeWriter(self, s)
        self.sessions[s] = {"reader": reader, "writer": writer, "writes": 0, "task": None, "lines": 0, "unanswered": []}
        self.ev("connect", s=s, width=0 if width is None else width)      # 0 = JSON null: the width is left to the server
        task = self.loop.create_task(self.session_main(s, reader, writer), name="S%d" % s)
        self.sessions[s]["task"] = task
        self.sessions[s]["style"] = style
        if handshake:
            info = {"terminal_width": width}
            if style == 1:
                # a client of another make: more keys in its handshake, CRLF line ends, blanks around its lines
                info = {"client": "other/1.0", "terminal_width": width, "colors": False}
            reader.feed_data(json.dumps(info).encode() + (b"\r\n" if style == 1 else b"\n"))

    async def session_main(self, s, reader, writer):
        try:
            await self.server._client_connected_cb(reader, writer)
            self.ev("sdone", s=s, how="ok", exc="")
        except asyncio.CancelledError:
            # the harness cancels sessions only when it shuts the loop down; before that a CancelledError leaving the
            # session is an exception that escaped like any other
            if self.shutting:
                self.ev("sdone", s=s, how="cancelled", exc="")
            else:
                self.ev("sdone", s=s, how="exc", exc="CancelledError")
        except BaseException as e:
            self.ev("sdone", s=s, how="exc", exc=type(e).__name__)

    def send(self, s, text, cls="", call=None, cmd="", ref="", ser=True):
        st = self.sessions[s]
        st["lines"] += 1
        twk, twin_res, kind, tw = "", "", "none", None
        deferred = None
        if st.get("over"):
            call = None             # the session has already been told to end (blank line / EOF): nothing will be read
        if call is not None and self.twin is not None and st["unanswered"]:
            deferred, call_now = call, None     # busy session: see on_write
            kind = "deferred"
        else:
            call_now = call
        if call_now is not None and self.twin is not None:
            twk, twin_res = self.twin_call(call)
            kind = "value"
            if twk == "await":
                kind, tw = "await", int(twin_res)
            elif twk == "converr":
                kind = "converr"
        blank = text.strip() == ""
        doc = self.member_doc(cmd) if cls == "help" else ""
        if blank:
            st["over"] = True
        if not blank:
            st["unanswered"].append((st["lines"], tw, doc, deferred))
        self.ev("send", s=s, k=st["lines"], text=text, cls=cls, cmd=cmd, ref=ref, blank=blank, twin=norm(twin_res), twk=twk,
                twinkind=kind, hascall=call is not None, ser=ser, twi=(tw if tw is not None else -1), doc=doc)
        if st.get("style") == 1 and not blank:
            st["reader"].feed_data(b"  " + text.encode() + b" \r\n")
        else:
            st["reader"].feed_data(text.encode() + b"\n")

    def eof(self, s):
        self.sessions[s]["over"] = True
        self.ev("eof", s=s)
        self.sessions[s]["reader"].feed_eof()

    def resolve(self, v, mod):
        if isinstance(v, dict) and "$path" in v:
            parts = v["$path"].split(".")
            if parts[0] == "ctlfuncs":
                obj = mod
                for name in parts[1:]:
                    obj = getattr(obj, name)
                return obj
            modname, _, attr = v["$path"].rpartition(".")
            return getattr(importlib.import_module(modname), attr)
        if isinstance(v, dict) and "$lit" in v:
            return ast.literal_eval(v["$lit"])
        if isinstance(v, list):
            return [self.resolve(x, mod) for x in v]
        return v

    def twin_call(self, call):
        """Perform the method call / property access the command line stands for on the twin pool.
        Returns (kind, text): kind = none (returned None) | value (str of the result) | exc (str of the exception)
        | await (index of the pending call) | converr (the twin-side conversion itself failed)."""
        pool = self.twin
        try:
            args = [self.resolve(a, ctlfuncs_twin) for a in call.get("args", [])]
            kwargs = {k: self.resolve(v, ctlfuncs_twin) for k, v in call.get("kwargs", {}).items()}
        except Exception as e:
            return "converr", type(e).__name__
        kind = call["kind"]
        try:
            if kind == "get":
                r = getattr(pool, call["m"])
                return ("none", "") if r is None else ("value", str(r))
            if kind == "set":
                setattr(pool, call["m"], args[0])
                return "none", ""
            meth = getattr(pool, call["m"])
            r0 = meth(*args, **kwargs)
            if inspect.isawaitable(r0):
                # the method itself waits (a coroutine function, or any callable that hands back an awaitable): what the
                # command stands for is the awaited call - its reply is due when the wait is over
                box = {"res": None}

                async def run():
                    try:
                        r = await r0
                        box["res"] = ("none", "") if r is None else ("value", str(r))
                    except Exception as e:
                        box["res"] = ("exc", str(e))
                t = self.loop.create_task(run(), name="TW")
                self.twin_tasks.append((t, box))
                return "await", str(len(self.twin_tasks) - 1)
            r = r0
            return ("none", "") if r is None else ("value", str(r))
        except Exception as e:
            return "exc", str(e)

    def twin_result(self, i):
        t, box = self.twin_tasks[i]
        return box["res"] if t.done() else None

    def idle(self):
        n = self.loop.run_idle(limit=20000)
        done = [i for i, (t, b) in enumerate(self.twin_tasks) if t.done()]
        for p in list(self.await_pairs):
            if self.twin_tasks[p["tw"]][0].done():
                self.await_pairs.remove(p)
                twk, twtext = self.twin_tasks[p["tw"]][1]["res"] or ("exc", "?")
                self.ev("acmp", s=p["s"], k=p["k"], text=p["text"], twk=twk, twin=norm(twtext))
        self.ev("idle", twdone=done, twres=[str(self.twin_tasks[i][1]["res"]) for i in done],
                calls=len(ctlfuncs.CALLS), tcalls=len(ctlfuncs_twin.CALLS), samecalls=ctlfuncs.CALLS == ctlfuncs_twin.CALLS)
        return n

    def release_all(self):
        for mod in (ctlfuncs, ctlfuncs_twin):
            for f in mod.GATES:
                if not f.done():
                    f.set_result(None)
        self.ev("release_all")

    def stop_serving(self):
        self.stub.serving = False
        self.ev("stop_serving")

    def run(self, script):
        with contextlib.redirect_stdout(self.out), contextlib.redirect_stderr(self.err):
            for c in script:
                k = c["c"]
                if k == "connect":
                    self.connect(c["s"], c.get("width", 80), c.get("handshake", True), c.get("style", 0))
                elif k == "send":
                    self.send(c["s"], c["text"], c.get("cls", ""), c.get("call"), c.get("cmd", ""), c.get("ref", ""), c.get("ser", True))
                elif k == "eof":
                    self.eof(c["s"])
                elif k == "idle":
                    self.idle()
                elif k == "release_all":
                    self.release_all()
                elif k == "stop_serving":
                    self.stop_serving()
                elif k == "unimport":
                    # the submodule has not been imported in this process yet, as far as the import system is concerned
                    pkg, _, sub = c["module"].rpartition(".")
                    sys.modules.pop(c["module"], None)
                    if pkg in sys.modules and hasattr(sys.modules[pkg], sub):
                        delattr(sys.modules[pkg], sub)
                elif k == "rebind":
                    # user code rebinds a module attribute between two commands: a dotted path means what it names NOW
                    setattr(ctlfuncs, c["name"], getattr(ctlfuncs, c["to"]))
                    setattr(ctlfuncs_twin, c["name"], getattr(ctlfuncs_twin, c["to"]))
                else:
                    raise ValueError(k)
            self.idle()
        alive = sorted(s for s, st in self.sessions.items() if not st["task"].done())
        # replies that were written for a waiting command although the same call, made directly on the twin, is still waiting
        early = sorted({p["s"] for p in self.await_pairs if not self.twin_tasks[p["tw"]][0].done()})
        self.ev("final", stdout=self.out.getvalue()[:200], stderr=self.err.getvalue()[:200], alive=alive,
                loop_errors=len(self.loop_errors), early=early)

    def close(self):
        self.shutting = True
        self.loop.shutdown()


def execute(job):
    """job = {"cls":..., "size":..., "script":[...]} -> {"trace": [...]}"""
    w = CtlWorld(job["cls"], job.get("size", 3), job.get("twin", True))
    try:
        w.run(job["script"])
        return {"ok": True, "trace": w.trace}
    except Exception as e:
        import traceback
        return {"ok": False, "err": "%s: %s" % (type(e).__name__, e), "tb": traceback.format_exc(), "trace": w.trace}
    finally:
        w.close()


if __name__ == "__main__":
    job = json.load(open(sys.argv[1]))
    r = execute(job)
    for rec in r["trace"]:
        print(json.dumps(rec)[:400])
    if not r["ok"]:
        print(r["tb"])
