"""Run a control server over REAL sockets (TCP / Unix) on a normally running event loop, driven by a script of
connect / command / disconnect / stop events (behaviours of spec/Control.tla with Transports = {"tcp","unix"});
optionally with the bundled CLI client as a subprocess.  Only the public API is used.  Every wait is bounded; a
timeout is recorded as the observation "did not happen within the bound", never raised."""
from __future__ import annotations

import asyncio
import json
import logging
import os
import socket
import subprocess
import sys
import tempfile
import time

HERE = os.path.dirname(os.path.abspath(__file__))
sys.path.insert(0, HERE)
REPO = os.environ.get("VERIF_REPO", "/repo")
if os.path.join(REPO, "src") not in sys.path:
    sys.path.insert(0, os.path.join(REPO, "src"))
logging.disable(logging.CRITICAL)

BOUND = float(os.environ.get("VERIF_SOCK_BOUND", "5.0"))
LINES = {"query": "num-running", "mutate": "lock", "help": "stop -h", "unknown": "frobnicate", "badarg": "stop",
         "convfail": "stop abc", "await": "flush"}


async def work():
    await asyncio.sleep(3600)


# a function name of 150 kB: the reply to 'func-name' is longer than anything a single read or a size constant covers
work.__name__ = "w" * 150000


def _call(f, *a):
    """the reply rule of C17 (Control!Expected): 'ok' for None, else str() of the result or of the exception raised"""
    try:
        r = f(*a)
    except Exception as e:      # noqa: BLE001
        return str(e)
    return "ok" if r is None else str(r)


LONG = "x" * 12000
# concrete well-formed query lines (no effect on the pool) with the reply the method call itself gives: what a client
# receives over a real socket - raw or through the bundled CLI client - must be exactly that
QUERIES = [
    ("num-running", lambda p: str(p.num_running)),
    ("get-group-ids 'q' \"r\"", lambda p: _call(p.get_group_ids, "'q'", '"r"')),
    ("pool-size", lambda p: str(p.pool_size)),
    ("get-group-ids start-group-0", lambda p: _call(p.get_group_ids, "start-group-0")),
    ("get-group-ids " + LONG, lambda p: _call(p.get_group_ids, LONG)),
    ("is-locked", lambda p: str(p.is_locked)),
    ("get-group-ids start-group-0 [1,'a'] {'k':\"v\"}", lambda p: _call(p.get_group_ids, "start-group-0", "[1,'a']", "{'k':\"v\"}")),
    ("func-name", lambda p: str(p.func_name)),        # 150 kB; raw clients only (the bundled client reads a reply with ONE read of 100 KiB)
    # on a locked pool: rejected with PoolIsLocked, whose str() is EMPTY - the reply is an empty line (used after 'lock' only)
    ("start 1", lambda p: _call(p.start, 1) if p.is_locked else None),
]
RAW_ONLY = {7}
DIRECTED_ONLY = {8}


def pobs(pool):
    return repr((pool.num_running, pool.num_cancelled, pool.num_ended, bool(pool.is_locked)))


def free_port():
    s = socket.socket()
    s.bind(("127.0.0.1", 0))
    p = s.getsockname()[1]
    s.close()
    return p


def kill(proc):
    try:
        proc.kill()
    except ProcessLookupError:
        pass


async def read_until_prompt(stream):
    """Collect the CLI client's output up to its next input prompt '> ' (bounded)."""
    buf = b""
    end = time.time() + BOUND * 2
    while not buf.endswith(b"> ") and time.time() < end:
        try:
            chunk = await asyncio.wait_for(stream.read(65536), max(0.05, end - time.time()))
        except asyncio.TimeoutError:
            break
        if not chunk:
            break
        buf += chunk
    return buf.decode("utf8", "replace")


class Client:
    def __init__(self):
        self.r = self.w = None
        self.cli = None


async def run_script(job):
    from asyncio_taskpool import SimpleTaskPool
    from asyncio_taskpool.control.server import TCPControlServer, UnixControlServer
    trace = []
    pool = SimpleTaskPool(work, pool_size=3, name="sock")
    pool.start(1)
    await asyncio.sleep(0)
    tmp = job.get("tmpdir") or tempfile.mkdtemp(prefix="ctlsock")      # (made and removed by the parent process, see execute)
    path = os.path.join(tmp, "s.sock")
    port = None
    server = None
    task = None
    clients = {}
    transport = None
    nq = [0]

    def ev(_e, **f):
        rec = {"e": _e}
        rec.update(f)
        rec["pobs"] = pobs(pool)
        trace.append(rec)

    async def open_conn():
        if transport == "unix":
            return await asyncio.wait_for(asyncio.open_unix_connection(path), BOUND)
        return await asyncio.wait_for(asyncio.open_connection("127.0.0.1", port), BOUND)

    async def can_connect():
        try:
            r, w = await open_conn()
            w.close()
            return True
        except Exception:
            return False

    ev("init", ps=str(pool))
    try:
        for c in job["script"]:
            k = c["c"]
            if k == "serve":
                transport = c["tr"]
                t0 = time.time()
                try:
                    if transport == "unix":
                        if c.get("stale"):
                            # a socket file left behind by a crashed earlier run sits at the path (asyncio replaces it on bind)
                            s0 = socket.socket(socket.AF_UNIX)
                            s0.bind(path)
                            s0.close()
                        server = UnixControlServer(pool, path)
                    else:
                        port = free_port()
                        # (the port may be given as int or str)
                        server = TCPControlServer(pool, "127.0.0.1", str(port) if len(job["script"]) % 2 else port)
                except Exception as e:      # noqa: BLE001  (a server that cannot even be constructed: an observation, not a crash)
                    ev("served", tr=transport, ok=False, prompt=True, serving=False, sock=False, err=type(e).__name__)
                    break
                try:
                    task = await asyncio.wait_for(server.serve_forever(), BOUND)
                    ev("served", tr=transport, ok=isinstance(task, asyncio.Task), prompt=True, serving=bool(server.is_serving()),
                       sock=os.path.exists(path))
                except asyncio.TimeoutError:
                    ev("served", tr=transport, ok=False, prompt=False, serving=False, sock=os.path.exists(path))
                except Exception as e:      # noqa: BLE001
                    ev("served", tr=transport, ok=False, prompt=True, serving=False, sock=os.path.exists(path), err=type(e).__name__)
                    break
            elif k == "connect":
                cl = clients[c["s"]] = Client()
                if c.get("cli"):
                    args = [sys.executable, "-m", "asyncio_taskpool.control"] + (["unix", path] if transport == "unix" else ["tcp", "127.0.0.1", str(port)])
                    env = dict(os.environ, PYTHONPATH=os.path.join(REPO, "src"))
                    cl.cli = await asyncio.create_subprocess_exec(*args, stdin=subprocess.PIPE, stdout=subprocess.PIPE,
                                                                  stderr=subprocess.PIPE, env=env)
                    banner = await read_until_prompt(cl.cli.stdout)
                    ev("connected", s=c["s"], cli=True, ok=banner.startswith("Connected to " + str(pool) + "\n") and banner.endswith("> "),
                       text=banner[:80])
                else:
                    try:
                        cl.r, cl.w = await open_conn()
                        if c.get("nohandshake"):
                            ev("connected", s=c["s"], cli=False, ok=True, text="(no handshake sent)", hs=False)
                            continue
                        cl.w.write(json.dumps({"terminal_width": 80}).encode() + b"\n")
                        await cl.w.drain()
                        name = await asyncio.wait_for(cl.r.readline(), BOUND)
                        ev("connected", s=c["s"], cli=False, ok=name.decode() == str(pool) + "\n", text=name.decode())
                    except Exception as e:
                        ev("connected", s=c["s"], cli=False, ok=False, text=type(e).__name__)
            elif k == "handshake":
                # a raw client that connected earlier without sending its handshake sends it now
                cl = clients.get(c["s"])
                if cl is None or cl.w is None:
                    continue
                try:
                    cl.w.write(json.dumps({"terminal_width": 80}).encode() + b"\n")
                    await cl.w.drain()
                    name = await asyncio.wait_for(cl.r.readline(), BOUND)
                    ev("handshook", s=c["s"], ok=name.decode() == str(pool) + "\n", text=name.decode()[:80])
                except Exception as e:
                    ev("handshook", s=c["s"], ok=False, text=type(e).__name__)
            elif k == "wait":
                # a raw client sends a command whose wait does not end (the pool is never closed) and does not wait for a reply
                cl = clients.get(c["s"])
                if cl is None or cl.w is None:
                    continue
                try:
                    cl.w.write(b"until-closed\n")
                    await cl.w.drain()
                    await asyncio.sleep(0.05)
                    ev("sentwait", s=c["s"])
                except Exception as e:
                    ev("sentwait", s=c["s"], err=type(e).__name__)
            elif k == "flood":
                # many clients that connect and go away without a handshake (port scans, health checks), some with garbage
                for i in range(c.get("n", 70)):
                    try:
                        r0, w0 = await open_conn()
                        if i % 3 == 1:
                            w0.write(b"GET / HTTP/1.0\r\n\r\n")
                            await w0.drain()
                        w0.close()
                        await asyncio.wait_for(w0.wait_closed(), BOUND)
                    except Exception:      # noqa: BLE001
                        pass
                await asyncio.sleep(0.1)
            elif k == "cliblank":
                # the user just hits return at the prompt of the bundled CLI client: nothing happens, the prompt comes back
                cl = clients.get(c["s"])
                if cl is None or cl.cli is None:
                    continue
                try:
                    cl.cli.stdin.write(b"   \n")
                    await cl.cli.stdin.drain()
                    out = await read_until_prompt(cl.cli.stdout)
                    ev("cliblank", s=c["s"], prompt=out.endswith("> "))
                except Exception as e:
                    ev("cliblank", s=c["s"], prompt=False)
            elif k == "pause":
                await asyncio.sleep(c.get("secs", 1))       # real time passes (slow clients; thorough tier)
            elif k == "cliwait":
                # the bundled CLI client sends a command whose method waits for several seconds (until-closed; the application
                # closes the pool after c["secs"]): the reply - and only the reply - must appear once the wait is over
                cl = clients.get(c["s"])
                if cl is None or cl.cli is None:
                    continue
                before = pobs(pool)
                try:
                    cl.cli.stdin.write(b"until-closed\n")
                    await cl.cli.stdin.drain()
                    await asyncio.sleep(c.get("secs", 6))
                    pool.stop_all()
                    await asyncio.wait_for(pool.gather_and_close(return_exceptions=True), BOUND)
                    out = await read_until_prompt(cl.cli.stdout)
                    body = (out[:-2] if out.endswith("> ") else out).strip("\n")
                    ev("reply", s=c["s"], cls="await", got=out.endswith("> ") and len(out) > 3, text=out[:120], before=before,
                       same=body == "True", line="until-closed (%ss)" % c.get("secs", 6))
                except Exception as e:
                    ev("reply", s=c["s"], cls="await", got=False, text=type(e).__name__, before=before, same=True, line="until-closed")
            elif k == "cmd":
                cl = clients.get(c["s"])
                line, exp = LINES.get(c["cls"], "num-running"), None
                nq[0] += 1
                if c["cls"] == "query":
                    v = c.get("v", (nq[0] + c["s"]) % (len(QUERIES) - len(DIRECTED_ONLY)))
                    if v in RAW_ONLY and cl is not None and cl.cli is not None:
                        v = 0
                    line, expf = QUERIES[v]
                    exp = expf(pool)
                elif c["cls"] == "mutate":
                    exp = "ok"
                before = pobs(pool)
                if cl is None:
                    continue
                try:
                    if cl.cli is not None:
                        cl.cli.stdin.write(line.encode() + b"\n")
                        await cl.cli.stdin.drain()
                        out = await read_until_prompt(cl.cli.stdout)
                        body = (out[:-2] if out.endswith("> ") else out).strip("\n")
                        ev("reply", s=c["s"], cls=c["cls"], got=out.endswith("> "), text=out[:120], before=before,
                           same=exp is None or body == exp, line=line[:60])
                    else:
                        cl.w.write(line.encode() + b"\n")
                        await cl.w.drain()
                        out = await asyncio.wait_for(cl.r.read(65536), BOUND)
                        while exp is not None and len(out) < len(exp.encode()) and not out.endswith(b"\n"):
                            more = await asyncio.wait_for(cl.r.read(65536), 1.0)      # a long reply may arrive in pieces
                            if not more:
                                break
                            out += more
                        ev("reply", s=c["s"], cls=c["cls"], got=len(out) > 0, text=out.decode()[:120], before=before,
                           same=exp is None or out.decode().strip("\n") == exp, line=line[:60])
                except Exception as e:
                    ev("reply", s=c["s"], cls=c["cls"], got=False, text=type(e).__name__, before=before, same=True, line=line[:60])
            elif k == "disconnect":
                cl = clients.pop(c["s"], None)
                before = pobs(pool)
                if cl is None:
                    continue
                how = c.get("how", "close")
                if cl.cli is not None:
                    try:
                        if how == "eof":
                            cl.cli.stdin.close()
                        else:
                            cl.cli.stdin.write(b"exit\n")
                            await cl.cli.stdin.drain()
                        rest = await asyncio.wait_for(cl.cli.stdout.read(), BOUND)
                        rc = await asyncio.wait_for(cl.cli.wait(), BOUND)
                        ev("disconnected", s=c["s"], how="cli-" + how, clean=("Disconnected from control server." in rest.decode()) and rc == 0, before=before)
                    except Exception as e:
                        kill(cl.cli)
                        ev("disconnected", s=c["s"], how="cli-" + how, clean=False, before=before)
                else:
                    clean = True
                    try:
                        if how == "eof" and cl.w.can_write_eof():
                            cl.w.write_eof()
                            await asyncio.sleep(0.02)
                    except OSError:
                        clean = False            # the server had already hung up
                    try:
                        cl.w.close()
                        await asyncio.wait_for(cl.w.wait_closed(), BOUND)
                    except Exception:
                        pass
                    await asyncio.sleep(0.02)
                    ev("disconnected", s=c["s"], how=how, clean=clean, before=before)
            elif k == "stop":
                if task is not None:
                    task.cancel()
                    await asyncio.sleep(0.02)
                    ev("stop", open=sorted(clients))
            elif k == "cancelall":
                # the application shuts down: every task but ours is cancelled (what asyncio.run does on exit)
                if task is not None:
                    me = asyncio.current_task()
                    for t in asyncio.all_tasks():
                        if t is not me:
                            t.cancel()
                    await asyncio.sleep(0.02)
                    ev("stop", open=sorted(clients))
            elif k == "restart":
                # the stopped server object is started once more
                if task is not None:
                    done, _ = await asyncio.wait([task], timeout=BOUND)
                    ev("finished", done=bool(done), secs=0.0, serving=bool(server.is_serving()), sock=os.path.exists(path),
                       connect=(await can_connect()), tr=transport)
                    try:
                        task = await asyncio.wait_for(server.serve_forever(), BOUND)
                        await asyncio.sleep(0.02)
                        ev("served", tr=transport, ok=isinstance(task, asyncio.Task) and not task.done(), prompt=True,
                           serving=bool(server.is_serving()), sock=os.path.exists(path))
                    except Exception as e:
                        ev("served", tr=transport, ok=False, prompt=False, serving=False, sock=os.path.exists(path))
        # ---- epilogue: if stopped, let the remaining clients go, then the serving task must complete ------------------
        last_served = max([i for i, r in enumerate(trace) if r["e"] == "served"] + [0])
        stopped = any(r["e"] == "stop" for r in trace[last_served:])
        if task is not None and stopped:
            for s in sorted(clients):
                cl = clients[s]
                if cl.cli is not None:
                    cl.cli.stdin.close()
                    try:
                        await asyncio.wait_for(cl.cli.wait(), BOUND)
                    except Exception:
                        kill(cl.cli)
                else:
                    cl.w.close()
            clients.clear()
            t0 = time.time()
            done, _ = await asyncio.wait([task], timeout=BOUND)
            ev("finished", done=bool(done), secs=round(time.time() - t0, 2), serving=bool(server.is_serving()),
               sock=os.path.exists(path), connect=(await can_connect()), tr=transport)
        elif task is not None:
            ev("running", done=task.done(), serving=bool(server.is_serving()), connect=(await can_connect()), tr=transport)
    finally:
        for cl in clients.values():
            try:
                if cl.cli is not None:
                    kill(cl.cli)
                elif cl.w is not None:
                    cl.w.close()
            except Exception:
                pass
    return trace


def run_in_this_process(job):
    """Runs the script; the caller must leave the process with os._exit afterwards (a serving task that never
    completes - the very thing C19 is about - would otherwise block interpreter shutdown)."""
    loop = asyncio.new_event_loop()
    asyncio.set_event_loop(loop)
    try:
        trace = loop.run_until_complete(asyncio.wait_for(run_script(job), 70))
        return {"ok": True, "trace": trace}
    except BaseException as e:
        import traceback
        return {"ok": False, "err": "%s: %s" % (type(e).__name__, e), "tb": traceback.format_exc(), "trace": []}


def execute(job, timeout=75):
    """Run one script in a child process (hard timeout), return its trace."""
    import shutil
    tmp = tempfile.mkdtemp(prefix="ctlsock")        # short path: Unix socket addresses are limited to ~100 characters
    try:
        try:
            p = subprocess.run([sys.executable, "-W", "ignore", os.path.abspath(__file__), "-"], input=json.dumps(dict(job, tmpdir=tmp)), text=True,
                               stdout=subprocess.PIPE, stderr=subprocess.PIPE, timeout=timeout, env=dict(os.environ, VERIF_REPO=REPO))
        except subprocess.TimeoutExpired:
            # the whole process stopped responding (e.g. the event loop spins): an observation, not a harness failure
            return {"ok": True, "trace": [{"e": "init", "ps": "?", "pobs": ""}, {"e": "hung", "secs": timeout, "pobs": ""}]}
        try:
            return json.loads(p.stdout.splitlines()[-1])
        except Exception:
            return {"ok": False, "err": "child failed: rc=%s %s" % (p.returncode, p.stderr[-400:]), "tb": p.stderr[-2000:], "trace": []}
    finally:
        shutil.rmtree(tmp, ignore_errors=True)


if __name__ == "__main__":
    job = json.load(sys.stdin) if sys.argv[1] == "-" else json.load(open(sys.argv[1]))
    r = run_in_this_process(job)
    if sys.argv[1] != "-":
        for rec in r["trace"]:
            print(json.dumps(rec))
        if not r["ok"]:
            print(r["tb"])
    else:
        print(json.dumps(r))
    sys.stdout.flush()
    os._exit(0)
