"""Execute a *schedule* (environment choices) against the real asyncio_taskpool pool, one event-loop
handle at a time, and record the observable trace.

Nothing here decides a property: the trace (a flat list of JSON records) is judged by the TLA+ monitor
(spec/Monitor.tla via spec/PoolTrace.tla) and, for TLC-generated schedules, compared step by step with
the observation the implementation-level specification (spec/PoolImpl.tla) predicted.

Schedule  = {"cfg": CFG, "cmds": [CMD...]}
CFG       = {"pools": [POOLCFG...]}            (or a single POOLCFG)
POOLCFG   = {"cls": "TaskPool"|"SimpleTaskPool", "size": int (-1 = default/unbounded), "name": str|None,
             "reqs": [TEMPLATE...], "simple": PLAN (SimpleTaskPool only)}
TEMPLATE  = {"kind": apply|map|starmap|doublestarmap|start, "num": n, "nc": num_concurrent,
             "gname": str|None, "bad": [j...], "notcoro": bool, + PLAN fields}
PLAN      = {"imm": bool, "onc": prop|swallow|exc|again, "ecb": none|sync|async|sraise|araise, "ccb": idem,
             "shape": 0|1|2|3 (args/kwargs shape for apply/start)}
CMD       = {"c":"step"} | {"c":"end","o":PRED} | {"c":"op","op":OP} | {"c":"in","pt":POINT,"op":OP}
            | {"c":"idle"} | {"c":"drain"} | {"c":"probe","k":K}
"""
from __future__ import annotations

import asyncio
import functools
import inspect
import logging
import math
import os
import sys

HERE = os.path.dirname(os.path.abspath(__file__))
sys.path.insert(0, HERE)
from steploop import StepLoop  # noqa: E402

REPO = os.environ.get("VERIF_REPO", "/repo")
if os.path.join(REPO, "src") not in sys.path:
    sys.path.insert(0, os.path.join(REPO, "src"))

logging.disable(logging.CRITICAL)

PLAN_DEFAULT = {"imm": False, "onc": "prop", "ecb": "none", "ccb": "none", "shape": 0}


FN_NAME = "wK"      # the worker function's name (mixed case on purpose; spec/PoolImpl.tla FnName)


class Boom(Exception):
    """Injected failure; the token identifies the injection site."""


class BoomType(Boom, TypeError):
    """... one that is also a TypeError (code that special-cases TypeError must not mistake it for its own)"""


class BoomKey(Boom, KeyError):
    pass


class BoomValue(Boom, ValueError):
    pass


_BOOMS = (Boom, BoomType, BoomKey, BoomValue)


def boom(tok):
    """The injected failure for token `tok`; its class varies with the token (all are reported as 'Boom')."""
    digits = "".join(ch for ch in tok.rsplit("-", 1)[-1] if ch.isdigit())
    return _BOOMS[(ord(tok[0]) + int(digits or 0)) % len(_BOOMS)](tok)


class _GetItemSeq:
    """Unpackable with *, but neither a tuple/list nor registered as collections.abc.Iterable."""
    def __init__(self, items):
        self._items = tuple(items)

    def __getitem__(self, i):
        return self._items[i]


class _KeysGetItem:
    """Unpackable with **, but neither a dict nor registered as collections.abc.Mapping."""
    def __init__(self, d):
        self._d = dict(d)

    def keys(self):
        return list(self._d)

    def __getitem__(self, k):
        return self._d[k]


def exp_args(e):
    """positional arguments of an expected-call string  repr((args, kwargs))"""
    import ast
    return ast.literal_eval(e)[0]


def cbk(kind):
    """callback kind as recorded in traces / known to the model: 'sfut' (a plain callback returning a future) is a 'sync' one"""
    return "sync" if kind in ("sfut", "sobj", "swrap") else "async" if kind == "amark" else kind


def _parse_id(name):
    try:
        return int(name.rsplit("-", 1)[1])
    except Exception:
        return -1


def _exc_name(e):
    return "Boom" if isinstance(e, Boom) else type(e).__name__


def _exc_tok(e):
    return str(e.args[0]) if isinstance(e, Boom) and e.args else str(e)


def _exc_isa(e):
    return [c.__name__ for c in type(e).__mro__ if c not in (object, BaseException)]


class World:
    """One event loop, one trace, one or several pools."""

    def __init__(self, cfg):
        import asyncio_taskpool  # noqa: F401  (import error = machinery failure, let it propagate)

        self.trace = []
        self.loop = StepLoop()
        self.loop.begin()
        self.loop.set_exception_handler(self._exc_handler)
        self.loop.set_task_factory(self._task_factory)
        self.alltasks = []      # every Task object ever created on this loop (strong refs, creation order)
        self.keep = []          # futures handed out by harness-owned callbacks (kept alive, never resolved)
        self.recording = True
        self.drained = False
        self.loop_errors = []
        self.cmds = []
        self.pos = 0
        self.armed = []         # [(point pattern, op, remaining uses)]
        self.xlog = []          # the primitive commands actually executed, each with the observation after it
        # set once something happened that spec/PoolImpl.tla has no counterpart for (or from the start: "nofollow")
        self.xstop = bool(cfg.get("nofollow")) if isinstance(cfg, dict) else False
        self.inhandle = []      # operations performed at user-code points during the current step
        self.drift = None
        self.skipped = 0
        pools = cfg["pools"] if "pools" in cfg else [cfg]
        self.multi = "pools" in cfg
        self.pools = []
        for p, pc in enumerate(pools):
            self.pools.append(PoolRun(self, p, pc))
        for pr in self.pools:
            sp = pr.splan if pr.simple else PLAN_DEFAULT
            pr.ev("init", cls=pr.cfg["cls"], cfgsize=pr.cfg.get("size", -1), ps=str(pr.pool),
                  allps=[str(q.pool) for q in self.pools], sexp=pr.simple_exp if pr.simple else "",
                  secb=cbk(sp["ecb"]), sccb=cbk(sp["ccb"]), sbad=sorted(sp.get("bad", [])),
                  ctor=pr.ctor_probe() if pr.simple else [])

    def _exc_handler(self, loop, ctx):
        self.loop_errors.append(str(ctx.get("message")))

    def _task_factory(self, loop, coro, **kw):
        t = asyncio.Task(coro, loop=loop, **kw)
        self.alltasks.append(t)
        return t

    # ---------------------------------------------------------------------------------------------
    def run(self, cmds):
        self.cmds = cmds
        self.pos = 0
        while self.pos < len(self.cmds):
            cmd = self.cmds[self.pos]
            self.pos += 1
            c = cmd["c"]
            if c not in ("end",):
                self.drained = False
            if c == "step":
                self.step()
            elif c == "end":
                self.compare(cmd)
            elif c == "op":
                self.pools[cmd["op"].get("p", 0)].do_op(cmd["op"], "gap")
            elif c == "in":
                # an in-handle operation whose point was never reached
                self.skipped += 1
                pr = self.pools[cmd["op"].get("p", 0)]
                pr.ev("skip", what="in:" + cmd.get("pt", "?"))
            elif c == "newpool":
                self.xstop = True
                # a pool created while others exist / after another one was closed (C11: names stay distinct)
                pr = PoolRun(self, len(self.pools), cmd["cfg"])
                self.pools.append(pr)
                sp = pr.splan if pr.simple else PLAN_DEFAULT
                pr.ev("init", cls=pr.cfg["cls"], cfgsize=pr.cfg.get("size", -1), ps=str(pr.pool),
                      allps=[str(q.pool) for q in self.pools], sexp=pr.simple_exp if pr.simple else "",
                      secb=cbk(sp["ecb"]), sccb=cbk(sp["ccb"]), sbad=sorted(sp.get("bad", [])),
                  ctor=pr.ctor_probe() if pr.simple else [])
            elif c == "arm":
                # arm an operation at a user-code point: "ecb:3" (exact) or "ecb:*" (next point of that kind)
                self.armed.append([cmd["pt"], cmd["op"], cmd.get("times", 1)])
            elif c == "idle":
                self.run_idle()
            elif c == "drain":
                self.drain()
            elif c == "probe":
                self.xstop = True
                self.pools[cmd.get("p", 0)].probe(cmd["k"])
            else:
                raise ValueError("unknown schedule command %r" % (cmd,))
        for pr in self.pools:
            pr.ev("final", idle=self.loop.idle(), drained=self.drained)
        self.recording = False

    def pred(self, pr):
        got = pr.obs_dict()
        got["nready"] = self.loop.nready()
        got["val"] = pr.priv_sem()
        return got

    def step(self):
        self.inhandle = []
        h = self.loop.step()
        if h is not None and not self.xstop and not self.multi:
            for pt, xop in self.inhandle:
                self.xlog.append({"c": "arm", "pt": pt, "op": xop})
            self.xlog.append({"c": "step", "o": self.pred(self.pools[0])})
        if h is None:
            for pr in self.pools:
                pr.ev("skip", what="step")
            self.skipped += 1
            return False
        t = self.loop.handle_task(h)
        for pr in self.pools:
            pr.ev("h", t=(t.get_name() if t is not None else "-"), idle=self.loop.idle(), G=True)
        return True

    def run_idle(self, limit=5000):
        n = 0
        if self.loop.idle():        # nothing to run: still record that the loop is idle here
            for pr in self.pools:
                pr.ev("h", t="idle", idle=True, G=True)
            return 0
        while n < limit and not self.loop.idle():
            self.step()
            n += 1
        return n

    def drain(self, rounds=400):
        """Let everything finish: run to idle, then release one gate, repeat."""
        for _ in range(rounds):
            self.run_idle()
            progressed = False
            for pr in self.pools:
                if pr.release_one():
                    progressed = True
                    break
            if not progressed:
                break
        self.run_idle()
        self.drained = True

    def compare(self, cmd):
        """Lock-step comparison with the observation predicted by the implementation-level spec."""
        pred = cmd.get("o")
        if pred is None or self.drift is not None:
            return
        pr = self.pools[cmd.get("p", 0)]
        got = pr.obs_dict()
        got["nready"] = self.loop.nready()
        got["val"] = pr.priv_sem()
        bad = {k: (pred[k], got.get(k)) for k in pred if k in got and pred[k] != got[k]}
        if bad:
            self.drift = {"pos": self.pos - 1, "diff": bad}

    def at_point(self, pr, point):
        """Called from harness-owned user code: perform the in-handle operations scheduled here."""
        for a in self.armed:
            pat, op, left = a
            if left > 0 and op.get("p", 0) == pr.p and (pat == point or (pat.endswith("*") and point.startswith(pat[:-1]))):
                a[2] -= 1
                pr.do_op(op, point)
        while self.pos < len(self.cmds):
            cmd = self.cmds[self.pos]
            if cmd["c"] != "in" or cmd.get("pt") != point or cmd["op"].get("p", 0) != pr.p:
                return
            self.pos += 1
            pr.do_op(cmd["op"], point)

    def close(self):
        self.loop.shutdown()


class PoolRun:
    def __init__(self, world, p, cfg):
        from asyncio_taskpool import SimpleTaskPool, TaskPool

        self.w = world
        self.p = p
        self.cfg = cfg
        self.loop = world.loop
        self.reqs = {}          # r -> state dict
        self.nreq = 0           # requests so far (accepted or rejected)
        self.tpls = [dict(PLAN_DEFAULT, **t) for t in cfg.get("reqs", [])]
        self.workers = {}       # id -> dict(gate=future|None, r, j)
        self.cbgates = {}       # (which, id) -> future
        self.hs = []            # harness tasks
        self.hcancelled = set()
        self.names = []         # group names ever handed out / used
        size = cfg.get("size", -1)
        kw = {}
        if size != -1:
            kw["pool_size"] = size
        if cfg.get("name") is not None:
            kw["name"] = cfg["name"]
        self.classified = 0
        self.ptasks = []
        self.nobj = {}
        self.last_al = None
        self.last_G = []
        self.simple = cfg["cls"] == "SimpleTaskPool"
        if self.simple:
            plan = dict(PLAN_DEFAULT, **cfg.get("simple", {}))
            self.splan = plan
            st = {"calls": 0, "pulls": 0, "tpl": plan}
            self.reqs[-1] = st
            a, k = self.shape_args(plan["shape"], -1)
            self.simple_exp = repr((tuple(a), k))
            sfunc = self.make_func(-1, plan, set(plan.get("bad", [])))
            if plan.get("method"):
                sfunc = self.as_method(sfunc)
            if plan.get("partial"):
                sfunc = functools.partial(sfunc)      # a coroutine function without a __name__
            self.pool = SimpleTaskPool(
                sfunc, args=a, kwargs=k,
                end_callback=self.make_cb("ecb", plan["ecb"], -1),
                cancel_callback=self.make_cb("ccb", plan["ccb"], -1), **kw)
        else:
            self.pool = TaskPool(**kw)
        self.prefix = "%s_Task-" % (self.pool,)

    @staticmethod
    def ctor_probe():
        """C09: a SimpleTaskPool cannot even be constructed with a function that is not a coroutine function."""
        from asyncio_taskpool import SimpleTaskPool

        def plain(*a, **k):
            return None
        try:
            SimpleTaskPool(plain)
            return ["(constructed)"]
        except Exception as e:      # noqa: BLE001
            return _exc_isa(e)

    # -- observation -------------------------------------------------------------------------------
    def obs(self):
        """[num_running, num_cancelled, num_ended, is_full, is_locked, pool_size] (-1 = unbounded, -9 = raised)."""
        p = self.pool
        try:
            size = p.pool_size
            size = -1 if size == math.inf else int(size)
            return [int(p.num_running), int(p.num_cancelled), int(p.num_ended),
                    int(bool(p.is_full)), int(bool(p.is_locked)), size]
        except Exception:  # a broken property is an observation too
            return [-9, -9, -9, 0, 0, -9]

    def obs_dict(self):
        o = self.obs()
        return {"run": o[0], "canc": o[1], "end": o[2], "full": o[3], "lk": o[4], "size": o[5]}

    def alive_ids(self):
        """Ids of this pool's tasks (asyncio tasks named '<pool>_Task-<id>') that exist and are not done.
        Also returns ids for which a second Task object with the same name was created."""
        prefix = self.prefix
        w = self.w
        while self.classified < len(w.alltasks):
            t = w.alltasks[self.classified]
            self.classified += 1
            nm = t.get_name()
            if nm.startswith(prefix):
                tid = _parse_id(nm)
                if nm == "%s%d" % (prefix, tid):
                    self.ptasks.append((tid, t))
                    self.nobj[tid] = self.nobj.get(tid, 0) + 1
        live = [(tid, t) for tid, t in self.ptasks if not t.done()]
        self.ptasks = live
        return sorted({tid for tid, _ in live})

    def priv_sem(self):
        v = getattr(getattr(self.pool, "_enough_room", None), "_value", None)
        if v is None:
            return -9
        return -1 if v == math.inf else int(v)

    def groups_obs(self):
        out = []
        for g in self.names:
            try:
                ids = sorted(self.pool.get_group_ids(g))
                out.append({"g": g, "ok": True, "ids": ids})
            except Exception:
                out.append({"g": g, "ok": False, "ids": []})
        return out

    def ev(self, _e, **f):
        if not self.w.recording:
            return None
        rec = {"e": _e}
        if self.w.multi:
            rec["p"] = self.p
        rec.update(f)
        rec.pop("G", None)
        G = self.groups_obs()       # group membership as reported by get_group_ids, whenever it changed
        if G != self.last_G:
            rec["G"] = self.last_G = G
        rec["o"] = self.obs()
        al = self.alive_ids()
        if al != self.last_al:
            rec["al"] = self.last_al = al
            dup = sorted(t for t in al if self.nobj.get(t, 0) > 1)
            if dup:
                rec["dupobj"] = dup
        self.w.trace.append(rec)
        return rec

    def point(self, name):
        self.w.at_point(self, name)

    # -- harness-owned user code ------------------------------------------------------------------
    @staticmethod
    def shape_args(shape, r):
        if shape == 0:
            return (), {}
        if shape == 1:
            return ("a%d" % r,), {}
        if shape == 3:
            # `args` is any iterable of positional arguments: a list, or a string (unpacked into its characters)
            return ("pq" if r % 2 else ["l%d" % r, 7]), {}
        # (keyword names that also are parameter names inside the library)
        return ("a%d" % r, "b%d" % r), {"k": "v%d" % r, "func": "f%d" % r, "group_name": "gn%d" % r, "self": r}

    def elements(self, r, tpl):
        kind, n = tpl["kind"], tpl["num"]
        if kind == "map":
            els = ["e%d_%d" % (r, j) for j in range(n)]
            exp = [repr(((x,), {})) for x in els]
        elif kind == "starmap":
            # anything Python can unpack with * is a legal element: tuples, lists, old-style __getitem__ sequences, strings
            els = [(chr(97 + r % 26), chr(97 + j % 26)) if (r + j) % 4 == 3 else ("e%d_%d" % (r, j), j) for j in range(n)]
            exp = [repr((x, {})) for x in els]
            els = [x if (r + j) % 4 == 0 else list(x) if (r + j) % 4 == 1 else _GetItemSeq(x) if (r + j) % 4 == 2 else "".join(x)
                   for j, x in enumerate(els)]
            # ... a dict, too, is unpacked with * (into its keys)
            els = [dict.fromkeys(exp_args(e)) if (r + j) % 5 == 4 and len(set(map(str, exp_args(e)))) == len(exp_args(e)) and isinstance(x, tuple) else x
                   for j, (x, e) in enumerate(zip(els, exp))]
        else:
            els = [{"x": "e%d_%d" % (r, j), "y": j} for j in range(n)]
            exp = [repr(((), x)) for x in els]
            # ... and anything with keys() and __getitem__ can be unpacked with **
            els = [x if (r + j) % 2 == 0 else _KeysGetItem(x) for j, x in enumerate(els)]
        return els, exp

    def make_iter(self, r, els, void_before=None):
        me, st = self, self.reqs[r]

        class CountingIter:
            def __iter__(self):
                st["iters"] = st.get("iters", 0) + 1      # (asking for the iterator is already "touching" the iterable)
                return self

            def __next__(self):
                j = st["pulls"]
                if void_before is not None and j == void_before and not st.get("voided"):
                    # an element that cannot be unpacked at all (None / 0 for starmap, doublestarmap): the pool logs the
                    # TypeError and goes on to the next element within the same step - as if it had not been there
                    st["voided"] = True
                    return None if r % 2 else 0
                try:
                    ng = len(me.pool.get_group_ids(st["gname"])) if st.get("gname") is not None else -1
                except Exception:
                    ng = -1
                if j >= len(els):
                    me.ev("pull", r=r, j=j, stop=True, ng=ng)
                    raise StopIteration
                st["pulls"] += 1
                me.ev("pull", r=r, j=j, stop=False, ng=ng)
                me.point("pull:%d:%d" % (r, j))
                return els[j]

        return CountingIter()

    def make_func(self, r, tpl, bad):
        me = self

        def func(*a, **kw):
            st = me.reqs[r]
            j = st["calls"]
            st["calls"] += 1
            raised = j in bad
            me.ev("call", r=r, j=j, got=repr((a, kw)), raised=raised)
            me.point("call:%d:%d" % (r, j))
            if raised:
                raise boom("call-%d-%d" % (r, j))
            return me.body(r, j, tpl)

        func.__name__ = FN_NAME                     # shared on purpose: generated group names must count up
        func.__qualname__ = "Harness.<locals>." + FN_NAME    # the documented pattern uses the plain name
        inspect.markcoroutinefunction(func)
        return func

    @staticmethod
    def as_method(func):
        import types

        class Holder:
            __slots__ = ()

        def w(self_, *a, **kw):
            return func(*a, **kw)
        w.__name__, w.__qualname__ = FN_NAME, "Holder.Run." + FN_NAME
        inspect.markcoroutinefunction(w)
        return types.MethodType(w, Holder())

    def make_plain_func(self, r):
        me = self

        def plain(*a, **kw):  # not a coroutine function: must never be called by the pool
            me.ev("call", r=r, j=-1, got=repr((a, kw)), raised=False)

        plain.__name__ = "plain%d" % r

        async def inner(*a, **kw):      # a sync wrapper around a coroutine function is still not a coroutine function
            return None
        plain.__wrapped__ = inner
        return plain

    def known_groups_of(self, tid):
        out = []
        for g in self.names:
            try:
                if tid in self.pool.get_group_ids(g):
                    out.append(g)
            except Exception:
                pass
        return out

    async def body(self, r, j, tpl):
        tn = asyncio.current_task().get_name()
        tid = _parse_id(tn)
        dup = tid in self.workers
        w = {"gate": None, "r": r, "j": j, "done": False}
        if not dup:
            self.workers[tid] = w
        self.ev("begin", id=tid, r=r, j=j, tn=tn, grps=self.known_groups_of(tid), dup=dup)
        self.point("begin:%d" % tid)
        try:
            if tpl["imm"]:
                self.ev("fin", id=tid, how="ret")
                self.point("fin:%d" % tid)
                return "res-%d" % tid
            again_used = False
            while True:
                w["gate"] = self.loop.create_future()
                try:
                    out = await w["gate"]
                except asyncio.CancelledError:
                    w["gate"] = None
                    self.ev("canc", id=tid)
                    self.point("canc:%d" % tid)
                    react = tpl["onc"] if not again_used else "prop"
                    if react == "again":
                        again_used = True
                        continue
                    self.ev("fin", id=tid, how={"prop": "canc", "swallow": "ret", "exc": "exc"}[react])
                    self.point("fin:%d" % tid)
                    if react == "prop":
                        raise
                    if react == "swallow":
                        return None
                    raise boom("w-%d" % tid) from None
                w["gate"] = None
                self.ev("resume", id=tid, out=out)
                if out == "again":
                    continue
                if out == "retexc":         # a task whose RESULT is an exception object (returned, not raised)
                    self.ev("fin", id=tid, how="ret")
                    self.point("fin:%d" % tid)
                    return boom("value-%d" % tid)
                self.ev("fin", id=tid, how=out)
                self.point("fin:%d" % tid)
                if out == "ret":
                    return "res-%d" % tid
                raise boom("w-%d" % tid)
        finally:
            w["done"] = True
            w["gate"] = None

    def make_cb(self, which, kind, r):
        me = self
        if kind == "none":
            return None
        if kind in ("sync", "sraise", "sfut", "sobj", "swrap"):
            def cb(tid):
                tn = asyncio.current_task().get_name()
                me.ev(which + "_in", id=tid, r=r, tn=tn)
                me.point("%s:%d" % (which, tid))
                if kind == "sraise":
                    me.ev(which + "_out", id=tid, how="exc")
                    raise boom("%s-%d" % (which, tid))
                me.ev(which + "_out", id=tid, how="ret")
                if kind == "sfut":
                    # a plain callback may return anything - e.g. a future of some background work of the user's: the pool
                    # calls callbacks, it does not await what a plain function returns
                    fut = me.loop.create_future()
                    me.w.keep.append(fut)
                    return fut
            if kind == "swrap":
                # a plain function produced by a functools.wraps decorator around a coroutine function: still a plain function
                async def wrapped_original(tid):
                    return None

                @functools.wraps(wrapped_original)
                def wrapper(tid):
                    return cb(tid)
                return wrapper
            if kind == "sobj":
                # any callable is a legal callback: here an object that is not hashable (it defines __eq__)
                class CallbackObject:
                    __hash__ = None

                    def __eq__(self, other):
                        return self is other

                    def __call__(self, tid):
                        return cb(tid)
                return CallbackObject()
            return cb

        async def acb(tid):
            tn = asyncio.current_task().get_name()
            me.ev(which + "_in", id=tid, r=r, tn=tn)
            me.point("%s:%d" % (which, tid))
            fut = me.loop.create_future()
            me.cbgates[(which, tid)] = fut
            try:
                await fut
            except asyncio.CancelledError:
                me.ev(which + "_out", id=tid, how="canc")
                raise
            finally:
                me.cbgates.pop((which, tid), None)
            if kind == "araise":
                me.ev(which + "_out", id=tid, how="exc")
                raise boom("%s-%d" % (which, tid))
            me.ev(which + "_out", id=tid, how="ret")
        if kind == "amark":
            # a plain function that returns a coroutine and is marked as a coroutine function the asyncio way (what
            # mock.create_autospec(async_fn) or compiled async functions look like): asyncio.iscoroutinefunction says yes
            def marked(tid):
                return acb(tid)
            marked._is_coroutine = asyncio.coroutines._is_coroutine
            return marked
        return acb

    # -- operations ------------------------------------------------------------------------------
    def gname_of(self, op):
        """Group name meant by an operation: explicit "g", or the name returned to request "r"
        (for a rejected / not yet issued request: its template's explicit name, else a name nobody has)."""
        if "g" in op:
            return op["g"]
        st = self.reqs.get(op.get("r"))
        if st and st.get("gname") is not None:
            return st["gname"]
        if st and st.get("tpl") and st["tpl"].get("gname") is not None:
            return st["tpl"]["gname"]
        return "nosuch-%s" % op.get("r")

    def do_op(self, op, where):
        o = op["o"]
        f = {"name": o, "where": where, "res": "ok", "isa": []}
        pool = self.pool
        try:
            if o == "spawn":
                self.op_spawn(op, f)
            elif o == "cancel":
                f["ids"] = list(op["ids"])
                pool.cancel(*op["ids"])
            elif o == "cancel_group":
                f["g"] = self.gname_of(op)
                f["r"] = op.get("r", -1)
                pool.cancel_group(f["g"])
            elif o == "cancel_all":
                pool.cancel_all()
            elif o == "stop":
                f["n"] = op["n"]
                f["ret"] = []
                f["ret"] = list(pool.stop(op["n"]))
            elif o == "stop_all":
                f["ret"] = []
                f["ret"] = list(pool.stop_all())
            elif o == "lock":
                pool.lock()
            elif o == "unlock":
                pool.unlock()
            elif o == "set_size":
                f["n"] = op["n"]
                pool.pool_size = op["n"]
            elif o == "get_ids":
                f["names"] = [self.gname_of({"r": x}) if isinstance(x, int) else x for x in op["names"]]
                f["ret"] = []
                f["ret"] = sorted(pool.get_group_ids(*f["names"]))
            elif o == "hstart":
                h = len(self.hs)
                f.update(h=h, kind=op["kind"], re=bool(op.get("re", False)))
                self.hs.append(self.loop.create_task(self.hrun(h, op["kind"], f["re"]), name="H%d_%d" % (self.p, h)))
            elif o == "hcancel":
                f["h"] = op["h"]
                if op["h"] < len(self.hs) and not self.hs[op["h"]].done():
                    self.hcancelled.add(op["h"])
                    self.hs[op["h"]].cancel()
                else:
                    f["res"] = "skip"
            elif o == "release":
                f.update(id=op["id"], out=op.get("out", "ret"))
                w = self.workers.get(op["id"])
                if w and w["gate"] is not None and not w["gate"].done():
                    w["gate"].set_result(f["out"])
                else:
                    f["res"] = "skip"
            elif o == "release_cb":
                f.update(id=op["id"], which=op["which"])
                fut = self.cbgates.get((op["which"], op["id"]))
                if fut is not None and not fut.done():
                    fut.set_result(None)
                else:
                    f["res"] = "skip"
            else:
                raise ValueError("unknown op %r" % (op,))
        except Exception as e:
            if str(e).startswith("unknown op"):
                raise
            f["res"] = _exc_name(e)
            f["isa"] = _exc_isa(e)
        if f["res"] == "skip":
            self.w.skipped += 1
        if o == "spawn":
            f["pre"], f["idx"] = self.split_name(f.get("ret", ""))
        f["G"] = True
        self.ev("op", **f)
        self.log_executed(op, f, where)

    def log_executed(self, op, f, where):
        """The operation just performed, in the vocabulary of spec/PoolImpl.tla (for following the schedule in the model)."""
        w = self.w
        if w.xstop or w.multi:
            return
        o = op["o"]
        x = {"o": o}
        if o == "spawn":
            x["t"] = (f["num"] + 1) if self.simple else (op["t"] + 1)
            if self.simple and not 0 <= f["num"] <= 3:
                w.xstop = True
                return
            if not self.simple and (self.tpls[op["t"]].get("probe") or self.tpls[op["t"]].get("mismatch")):
                w.xstop = True
                return
        elif o == "cancel":
            x["ids"] = list(f["ids"])
        elif o == "cancel_group":
            x.update(g=f["g"] or "<empty>", r=-1)
        elif o in ("stop",):
            x["n"] = f["n"]
        elif o == "set_size":
            x["n"] = f["n"]
        elif o == "get_ids":
            x["names"] = [n or "<empty>" for n in f["names"]]
        elif o == "hstart":
            x.update(kind=f["kind"], re=f["re"])
        elif o == "hcancel":
            x["h"] = f["h"]
        elif o == "release":
            x.update(id=f["id"], out=f["out"])
        elif o == "release_cb":
            x.update(id=f["id"], which=f["which"])
        if where == "gap":
            w.xlog.append({"c": "op", "op": x, "o": w.pred(self)})
        else:
            w.inhandle.append((where, x))

    def op_spawn(self, op, f):
        """op = {"o":"spawn","t":template index} (TaskPool) or {"o":"spawn","num":n} (SimpleTaskPool).
        Every spawn operation is its own request r = 0, 1, 2, ... in the order the operations are performed."""
        r = self.nreq
        self.nreq += 1
        pool = self.pool
        if self.simple:
            num = op.get("num", 1)
            f.update(r=r, t=-1, kind="start", num=num, nc=1, named=False, gname="", fn="", notcoro=False,
                     exp=[self.simple_exp], ret="",
                     ecb=cbk(self.splan["ecb"]), ccb=cbk(self.splan["ccb"]), bad=sorted(self.splan.get("bad", [])))
            self.reqs[r] = {"gname": None}
            ret = pool.start(num)
            f["ret"] = ret
            self.reqs[r]["gname"] = ret
            if ret not in self.names:
                self.names.append(ret)
            return
        tpl = self.tpls[op["t"]]
        kind = tpl["kind"]
        st = self.reqs[r] = {"calls": 0, "pulls": 0, "tpl": tpl, "gname": None}
        if tpl.get("notcoro"):
            func = self.make_plain_func(r)
        else:
            func = self.make_func(r, tpl, set(tpl.get("bad", [])))
            if tpl.get("method"):
                # a bound method of some object is a perfectly good coroutine function (it cannot take new attributes, its
                # identity differs from access to access)
                func = self.as_method(func)
            if tpl.get("partial") and tpl.get("gname") is not None:
                # a functools.partial of a coroutine function is a coroutine function too (it has no __name__: the request
                # carries an explicit group name)
                func = functools.partial(func)
        ecb = self.make_cb("ecb", tpl["ecb"], r)
        ccb = self.make_cb("ccb", tpl["ccb"], r)
        gname = tpl.get("gname")
        f.update(r=r, t=op["t"], kind=kind, num=tpl["num"], nc=tpl.get("nc", 1), named=gname is not None,
                 gname=gname or "", fn=getattr(func, "__name__", FN_NAME), notcoro=bool(tpl.get("notcoro")), ret="",
                 ecb=cbk(tpl["ecb"]), ccb=cbk(tpl["ccb"]), bad=sorted(tpl.get("bad", [])))
        if kind == "apply" and tpl.get("mismatch") and not tpl.get("notcoro"):
            # arguments that do not fit the function: the request is accepted all the same, every invocation fails when
            # func is called (before its body) and is skipped - so no call is ever recorded and no task appears
            def strict(only, *, also):
                raise AssertionError("unreachable")
            strict.__name__, strict.__qualname__ = FN_NAME, "Harness.<locals>." + FN_NAME
            inspect.markcoroutinefunction(strict)
            f.update(num=0, exp=[])
            ret = pool.apply(strict, args=(), kwargs={}, num=tpl["num"], group_name=gname, end_callback=ecb, cancel_callback=ccb)
        elif kind == "apply":
            a, k = self.shape_args(tpl["shape"], r)
            f["exp"] = [repr((tuple(a), k))]
            ret = pool.apply(func, args=a, kwargs=k, num=tpl["num"], group_name=gname,
                             end_callback=ecb, cancel_callback=ccb)
        else:
            els, exp = self.elements(r, tpl)
            f["exp"] = exp
            it = self.make_iter(r, els, tpl.get("void") if kind in ("starmap", "doublestarmap") else None)
            f["iters"] = 0
            try:
                ret = getattr(pool, kind)(func, it, num_concurrent=tpl.get("nc", 1), group_name=gname,
                                          end_callback=ecb, cancel_callback=ccb)
            finally:
                f["iters"] = st.get("iters", 0) + st["pulls"]     # __iter__ / __next__ calls made while the request was being decided
        f["ret"] = ret
        st["gname"] = ret
        if ret not in self.names:
            self.names.append(ret)

    @staticmethod
    def split_name(name):
        """'<prefix>-<i>' -> (prefix incl. the last dash, i) ; idx -1 when the suffix is not a number."""
        name = str(name)
        pre, _, suf = name.rpartition("-")
        if pre and suf.isdigit():
            return pre + "-", int(suf)
        return name, -1

    async def hrun(self, h, kind, re):
        self.ev("hbegin", h=h, kind=kind, re=re)
        try:
            if kind == "flush":
                await self.pool.flush(return_exceptions=re)
            elif kind == "gac":
                await self.pool.gather_and_close(return_exceptions=re)
            elif kind == "until":
                await self.pool.until_closed()
            else:
                raise ValueError(kind)
            self.ev("hdone", h=h, kind=kind, res="ok", tok="", G=True)
        except asyncio.CancelledError:
            # "cancelled" = the user cancelled this awaiting task; otherwise the awaited method itself raised
            # CancelledError (e.g. gather() over a cancelled child), which is an exception like any other
            res = "cancelled" if h in self.hcancelled else "CancelledError"
            self.ev("hdone", h=h, kind=kind, res=res, tok="", G=True)
        except BaseException as e:
            self.ev("hdone", h=h, kind=kind, res=_exc_name(e), tok=_exc_tok(e), G=True)

    # -- macros ----------------------------------------------------------------------------------
    def release_one(self):
        for (which, tid), fut in sorted(self.cbgates.items()):
            if not fut.done():
                self.do_op({"o": "release_cb", "which": which, "id": tid}, "gap")
                return True
        for tid in sorted(self.workers):
            w = self.workers[tid]
            if w["gate"] is not None and not w["gate"].done():
                self.do_op({"o": "release", "id": tid, "out": "ret"}, "gap")
                return True
        return False

    def probe(self, k):
        """Capacity probe: ask for k gated tasks in a fresh group, run to idle, report how many began."""
        if self.simple and (self.splan["imm"] or self.splan.get("bad")):
            self.ev("skip", what="probe")
            return
        self.w.armed = []       # the probe itself must not be disturbed by operations armed earlier
        if self.pool.is_locked:
            self.do_op({"o": "unlock"}, "gap")
        r = self.nreq
        if self.simple:
            before = {t for t in self.workers}
            self.do_op({"o": "spawn", "num": k}, "gap")
            self.w.run_idle()
            mine = [t for t in self.workers if t not in before]
        else:
            self.tpls.append(dict(PLAN_DEFAULT, kind="apply", num=k, nc=1, gname=None, probe=True))
            self.do_op({"o": "spawn", "t": len(self.tpls) - 1}, "gap")
            self.w.run_idle()
            mine = [t for t, w in self.workers.items() if w["r"] == r]
        live = [t for t in mine if not self.workers[t]["done"]]
        self.ev("probe", r=r, k=k, begun=len(mine), live=len(live), idle=self.loop.idle())
        self.w.drain()


def execute(schedule):
    """Run one schedule; returns {"trace": [...], "drift": ..., "skipped": n, "loop_errors": [...]}."""
    w = World(schedule["cfg"])
    try:
        w.run(schedule["cmds"])
        return {"trace": w.trace, "drift": w.drift, "skipped": w.skipped, "loop_errors": w.loop_errors, "xlog": w.xlog}
    finally:
        w.close()


if __name__ == "__main__":
    import json

    sched = json.load(open(sys.argv[1]))
    res = execute(sched)
    for rec in res["trace"]:
        print(json.dumps(rec))
    print(json.dumps({"drift": res["drift"], "skipped": res["skipped"]}), file=sys.stderr)
